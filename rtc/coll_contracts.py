"""Run-time contracts + reference models for the utility collections (C54 bounded complement; reused by C55).

Everything here *drives the real classes* handed in by the caller (pure ``.py`` build or compiled build of
``util._collections_cy`` / ``util._immutabledict_cy``; ``util._collections`` for LRUCache / merge_lists_w_ordering /
has_dupes).  The verdict comes from the contract clauses of DESIGN Appendix B.1 / B.2:

OrderedSet      rep: no_dups(list(s)) and set-part == members(list(s)) and len(s) == len(list(s));   view = list(s)
                every operation, from every rep-satisfying state: rep' and view' == spec(view, args) where spec is "set
                semantics with first-insertion order" (set-typed arguments: the appended part in any duplicate-free order);
                result fresh / ``self`` / None as specified; ``self`` and the arguments unchanged when not in the frame;
                exception types: KeyError (remove absent, pop empty), IndexError (__getitem__ outside)
                names of the public surface without an ordered spec (isdisjoint, issubset, comparisons, reflected
                operators ...) must agree with the builtin set on set(view) and leave the view unchanged
IdentitySet     view = insertion-ordered list of object identities; every method, operator, in-place operator and
                comparison against the ordered-identity-set model; **in-place operators return self with the updated view**;
                operators with a non-IdentitySet operand raise TypeError; hash() raises TypeError
immutabledict   union / merge_with == left-to-right dict merge of the non-empty arguments; ``result is self`` iff nothing
                non-empty was passed; the single non-empty immutabledict is returned as is when self is empty; the result is
                never a mutable argument; every dict mutator found by reflection raises TypeError and leaves the mapping
                unchanged; ``|`` / reflected ``|`` give a fresh immutabledict with dict semantics; copy() is self; pickle
unique_list     result == first occurrences of list(seq), a fresh list
LRUCache        view key -> (value, counter): get / [] / in return only the value stored under that key and touch only its
                counter; after __setitem__: if len > capacity*(1+threshold) exactly the ``capacity`` most recently used
                entries survive with their values, else nothing is dropped; so len <= capacity*(1+threshold) always;
                size_alert fires exactly when something is dropped
merge_lists_w_ordering(a, b)  (duplicate-free lists) result is a permutation of a U b; elements only in a keep a's order,
                elements only in b keep b's order; if a and b order their common elements alike, both orders are kept
has_dupes       True iff the target occurs (by identity) at least twice

A *state* is reached by a path of operations from the empty collection; states are explored breadth-first to the
stated depth and every operation of the catalogue is applied in every rep-satisfying state, which covers every
operation sequence up to depth+1 (an operation's contract depends only on the pre-state view).  States that violate
rep are reported for the operation that produced them and are not explored further (``requires rep``).
"""
import copy as _copy
import itertools
import json
import operator
import pickle
import types

# =============================================================================================== helpers


def uniq(seq):
    out = []
    for x in seq:
        if x not in out:
            out.append(x)
    return out


class Obj:
    """identity-only test object: all instances are == and hash alike, so only id() can tell them apart"""
    __slots__ = ("n",)

    def __init__(self, n):
        self.n = n

    def __eq__(self, other):
        return isinstance(other, Obj)

    def __hash__(self):
        return 7

    def __repr__(self):
        return "o%d" % self.n


OBJS = [Obj(i) for i in range(6)]
OPERATOR_NAMES = {"__or__", "__and__", "__sub__", "__xor__", "__add__", "__ior__", "__iand__", "__isub__", "__ixor__", "__le__", "__lt__", "__ge__",
                  "__gt__", "__eq__", "__ne__", "__contains__", "__getitem__"}
SET_KINDS = ("set", "frozenset")


class Fail:
    __slots__ = ("function", "clause", "input", "detail")

    def __init__(self, function, clause, input_, detail):
        self.function, self.clause, self.input, self.detail = function, clause, input_, detail

    def as_dict(self):
        return dict(function=self.function, clause=self.clause, input=self.input, detail=self.detail)


class Result:
    """accumulator for one suite"""

    def __init__(self, name, scope, collect_outcomes=False):
        self.name, self.scope = name, scope
        self.evaluations = 0
        self.nontrivial = 0
        self.fails = []
        self.samples = []
        self.states = 0
        self.outcomes = {} if collect_outcomes else None
        self.notes = []

    def record(self, key, outcome):
        if self.outcomes is not None:
            self.outcomes[key] = outcome

    def summary(self):
        return dict(suite=self.name, scope=self.scope, evaluations=self.evaluations, distinct_nontrivial=self.nontrivial, states=self.states,
                    contract_failures=len(self.fails), notes=self.notes)


def _call(obj, meth, args, opform=True):
    try:
        if opform and meth in OPERATOR_NAMES:
            return None, getattr(operator, meth)(obj, *args)
        return None, getattr(obj, meth)(*args)
    except Exception as e:      # noqa: BLE001 - exception type is part of the contract
        return type(e).__name__, None


# =============================================================================================== OrderedSet


def oset_build(desc, OS):
    k, v = desc[0], desc[1] if len(desc) > 1 else None
    if k in ("el", "int"):
        return v
    if k == "none":
        return None
    if k == "list":
        return list(v)
    if k == "tuple":
        return tuple(v)
    if k == "iter":
        return iter(list(v))
    if k == "set":
        return set(v)
    if k == "frozenset":
        return frozenset(v)
    if k == "oset":
        return OS(v)
    if k == "dict":
        return dict.fromkeys(v, 0)
    raise ValueError(desc)


def oset_state(s):
    L = list(s)
    part = list(set.__iter__(s))
    return L, part, set.__len__(s)


def oset_rep(s):
    L, part, n = oset_state(s)
    bad = []
    if len(set(L)) != len(L):
        bad.append(f"list view has duplicates: {L}")
    if set(part) != set(L) or len(part) != n:
        bad.append(f"set part {sorted(part)} != members of list view {L}")
    if n != len(L):
        bad.append(f"len(set part) {n} != len(list view) {len(L)}")
    return bad


_OS_ITER_ARG = {"update", "union", "intersection", "difference", "symmetric_difference", "intersection_update", "difference_update",
                "symmetric_difference_update", "__or__", "__and__", "__sub__", "__xor__", "__add__", "__ior__", "__iand__", "__isub__", "__ixor__"}
_OS_INPLACE = {"update", "intersection_update", "difference_update", "symmetric_difference_update", "__ior__", "__iand__", "__isub__", "__ixor__"}
_OS_RETURN_SELF = {"__ior__", "__iand__", "__isub__", "__ixor__"}
_OS_STAR = {"update", "union", "intersection", "difference", "intersection_update", "difference_update"}


def oset_spec(L, meth, descs):
    """-> dict(exc, view=(exact_prefix, any_order_tail) , ret=('none'|'self'|'fresh'|'value', payload))  or None (no ordered spec)"""
    def contents(d):
        return list(d[1])                                   # iteration order of list / tuple / iter / oset / dict kinds
    anyorder = any(d[0] in SET_KINDS for d in descs)
    if meth == "add":
        e = descs[0][1]
        return dict(exc=None, view=(L if e in L else L + [e], []), ret=("none", None))
    if meth in ("remove", "discard"):
        e = descs[0][1]
        if e in L:
            return dict(exc=None, view=([x for x in L if x != e], []), ret=("none", None))
        return dict(exc="KeyError" if meth == "remove" else None, view=(L, []), ret=("none", None))
    if meth == "pop":
        if not L:
            return dict(exc="KeyError", view=(L, []), ret=("none", None))
        return dict(exc=None, view=(L[:-1], []), ret=("value", L[-1]))
    if meth == "insert":
        pos, e = descs[0][1], descs[1][1]
        if e in L:
            return dict(exc=None, view=(L, []), ret=("none", None))
        m = list(L)
        m.insert(pos, e)
        return dict(exc=None, view=(m, []), ret=("none", None))
    if meth == "clear":
        return dict(exc=None, view=([], []), ret=("none", None))
    if meth == "copy":
        return dict(exc=None, view=(L, []), ret=("fresh", (L, [])))
    if meth == "__getitem__":
        k = descs[0][1]
        if -len(L) <= k < len(L):
            return dict(exc=None, view=(L, []), ret=("value", L[k]))
        return dict(exc="IndexError", view=(L, []), ret=("none", None))
    if meth == "__iter__":
        return dict(exc=None, view=(L, []), ret=("iter", L))
    if meth == "__len__":
        return dict(exc=None, view=(L, []), ret=("value", len(L)))
    if meth == "__contains__":
        return dict(exc=None, view=(L, []), ret=("value", descs[0][1] in L))
    if meth in ("__repr__", "__str__"):
        return dict(exc=None, view=(L, []), ret=("value", "OrderedSet(%r)" % (L,)))
    if meth == "pickle":
        return dict(exc=None, view=(L, []), ret=("fresh", (L, [])))
    if meth not in _OS_ITER_ARG:
        return None
    its = [contents(d) for d in descs]
    if meth in ("update", "union", "__or__", "__ior__", "__add__"):
        new = uniq([x for it in its for x in it if x not in L])
        out = (L, new) if anyorder else (L + new, [])
    elif meth in ("intersection", "intersection_update", "__and__", "__iand__"):
        out = ([a for a in L if all(a in it for it in its)], [])
    elif meth in ("difference", "difference_update", "__sub__", "__isub__"):
        out = ([a for a in L if all(a not in it for it in its)], [])
    else:
        o = its[0]
        keep = [a for a in L if a not in o]
        new = uniq([a for a in o if a not in L])
        out = (keep, new) if anyorder else (keep + new, [])
    if meth in _OS_INPLACE:
        return dict(exc=None, view=out, ret=("self" if meth in _OS_RETURN_SELF else "none", None))
    return dict(exc=None, view=(L, []), ret=("fresh", out))


def _view_ok(got, want):
    prefix, tail = want
    n = len(prefix)
    return got[:n] == prefix and sorted(got[n:], key=repr) == sorted(tail, key=repr) and len(got) == n + len(tail)


def _canon_view(got, want):
    if want is None:
        return repr(got)
    n = len(want[0])
    return repr(got[:n]) + "+" + repr(sorted(got[n:], key=repr))


def oset_catalogue(tier):
    thorough = tier == "thorough"
    pool = [1, 2, 3, 4] if thorough else [1, 2, 3]
    conts = [list(t) for k in range(0, 3) for t in itertools.product(pool, repeat=k)]
    conts += [[1, 1, 2], [2, 2, 2], [3, 2, 1], [1, 2, 1], [3, 3, 1, 3]]
    if thorough:
        conts += [[4, 4, 3], [1, 2, 3, 4], [4, 3, 2, 1], [2, 4, 2, 4]]
    kinds = ("list", "tuple", "iter", "set", "frozenset", "oset", "dict")
    args1 = []
    for c in conts:
        for k in kinds:
            if k in ("set", "frozenset", "oset", "dict") and len(set(c)) != len(c):
                continue                                     # these kinds cannot carry duplicates
            args1.append([k, c])
    ops = []
    for e in pool + [9]:
        ops += [["add", [["el", e]]], ["remove", [["el", e]]], ["discard", [["el", e]]], ["__contains__", [["el", e]]]]
        for pos in (-5, -1, 0, 1, 5):
            ops.append(["insert", [["int", pos], ["el", e]]])
    ops += [["pop", []], ["clear", []], ["copy", []], ["__iter__", []], ["__len__", []], ["__repr__", []], ["__str__", []], ["pickle", []]]
    ops += [["__getitem__", [["int", k]]] for k in (-5, -2, -1, 0, 1, 2, 5)]
    for m in sorted(_OS_ITER_ARG):
        ops += [[m, [a]] for a in args1]
    pairs = [(["list", [1, 9]], ["set", [2, 9]]), (["iter", [2, 2, 9]], ["list", [9, 1]]), (["oset", [3, 1]], ["tuple", [1, 3, 3]]), (["set", []], ["list", [1]]),
             (["dict", [2, 1]], ["frozenset", [1, 2, 3]]), (["list", []], ["list", []])]
    for m in sorted(_OS_STAR):
        ops.append([m, []])
        ops += [[m, [a, b]] for a, b in pairs]
    # the rest of the public surface: must agree with the builtin set on set(view)
    for m in ("isdisjoint", "issubset", "issuperset", "__eq__", "__ne__", "__le__", "__lt__", "__ge__", "__gt__"):
        for c in ([], [1], [1, 2], [2, 1, 3], [9]):
            for k in ("set", "frozenset", "oset") + (("list", "iter") if not m.startswith("__") else ("list",)):
                ops.append([m, [[k, c]]])
    for m in ("__ror__", "__rand__", "__rsub__", "__rxor__"):
        for c in ([], [1, 9], [2, 1, 3]):
            for k in ("set", "frozenset", "list"):
                ops.append([m, [[k, c]]])
    inits = [["none"]] + args1
    return pool, ops, inits


_ROP = {"__ror__": operator.or_, "__rand__": operator.and_, "__rsub__": operator.sub, "__rxor__": operator.xor}


def _plain(x):
    """builtin-set image of a value (OrderedSet -> set) for the 'agrees with the builtin set' clause"""
    if isinstance(x, (set, frozenset)):
        return (type(x).__name__ if type(x) in (set, frozenset) else "set", sorted(x, key=repr))
    return x


def oset_eval(OS, path, op, impl, res=None, opform=True):
    """replay ``path`` from the empty OrderedSet, apply ``op`` under contract -> (list[Fail], post_state_key or None, info)"""
    s = OS()
    for m, descs in path:
        _apply_oset(OS, s, m, descs)
    return oset_eval_on(OS, s, path, op, impl, res)


def _apply_oset(OS, s, meth, descs):
    if meth == "pickle":
        return None, pickle.loads(pickle.dumps(s))
    if meth in _ROP:
        try:
            return None, _ROP[meth](oset_build(descs[0], OS), s)
        except Exception as e:  # noqa: BLE001
            return type(e).__name__, None
    args = [oset_build(d, OS) for d in descs]
    exc, ret = _call(s, meth, args)
    return exc, ret


def oset_eval_on(OS, s, path, op, impl, res=None):
    meth, descs = op
    fn = "OrderedSet." + meth
    L0 = list(s)
    args_keep = [oset_build(d, OS) for d in descs if d[0] in ("list", "oset", "dict", "set")]
    args_before = [(_plain(a) if not isinstance(a, dict) else list(a)) for a in args_keep]
    # the call on the real class
    if meth == "pickle":
        exc, ret = _apply_oset(OS, s, meth, descs)
        args = []
    elif meth in _ROP:
        exc, ret = _apply_oset(OS, s, meth, descs)
        args = []
    else:
        args = [oset_build(d, OS) for d in descs]
        # keep handles on the inspectable arguments for the frame clause
        keep = [a for a, d in zip(args, descs) if d[0] in ("list", "oset", "dict", "set")]
        args_keep = keep
        exc, ret = _call(s, meth, args)
    dup = any(d[0] in ("list", "tuple", "iter") and len(set(d[1])) != len(d[1]) for d in descs)
    inp = dict(cls="OrderedSet", impl=impl, path=path, op=op, arg_has_duplicates=dup)
    fails = []

    def fail(clause, detail):
        fails.append(Fail(fn, clause, inp, detail))
    L1 = list(s)
    spec = oset_spec(L0, meth, descs)
    rep = oset_rep(s)
    for r in rep:
        fail("rep", r)
    outcome = None
    if spec is not None:
        if exc != spec["exc"]:
            fail("exception", f"raised {exc}, contract: {spec['exc']}")
        if not _view_ok(L1, spec["view"]):
            fail("view", f"view after = {L1}, contract: {spec['view'][0]} ++ any order of {spec['view'][1]} (view before = {L0})")
        kind, payload = spec["ret"]
        if exc is None and spec["exc"] is None:
            if kind == "none" and ret is not None:
                fail("returns", f"returned {ret!r}, contract: None")
            elif kind == "self" and ret is not s:
                fail("returns", f"in-place operator returned {type(ret).__name__} {list(ret) if hasattr(ret, '__iter__') else ret!r}, contract: self")
            elif kind == "value" and not (ret == payload and type(ret) is type(payload)):
                fail("returns", f"returned {ret!r}, contract: {payload!r}")
            elif kind == "iter" and list(ret) != payload:
                fail("returns", "iteration order differs from the view")
            elif kind == "fresh":
                if ret is s or type(ret) is not OS:
                    fail("result", f"result must be a fresh OrderedSet, got {'self' if ret is s else type(ret).__name__}")
                else:
                    if not _view_ok(list(ret), payload):
                        fail("result", f"result view = {list(ret)}, contract: {payload[0]} ++ any order of {payload[1]} (self = {L0})")
                    for r in oset_rep(ret):
                        fail("result-rep", r)
        outcome = (exc, _canon_view(L1, spec["view"]),
                   _canon_view(list(ret), spec["ret"][1]) if spec["ret"][0] == "fresh" and isinstance(ret, set) else
                   ("self" if ret is s else repr(list(ret)) if spec["ret"][0] == "iter" and exc is None else repr(ret)))
    else:
        # agrees with the builtin set on set(view); view unchanged
        plain = set(L0)
        if meth in _ROP:
            try:
                pe, pr = None, _ROP[meth](oset_build(descs[0], set), plain)
            except Exception as e:  # noqa: BLE001
                pe, pr = type(e).__name__, None
        else:
            pargs = [set(a) if isinstance(a, OS) else a for a in (oset_build(d, OS) for d in descs)]
            pe, pr = _call(plain, meth, pargs)
        if (exc, _plain(ret)) != (pe, _plain(pr)):
            fail("agrees-with-set", f"OrderedSet: {exc or _plain(ret)!r}; builtin set on the same members: {pe or _plain(pr)!r}")
        if L1 != L0:
            fail("view", f"view changed from {L0} to {L1} by a non-mutating operation")
        outcome = (exc, repr(L1), repr(_plain(ret)))
    for a, before in zip(args_keep, args_before):
        now = _plain(a) if not isinstance(a, dict) else list(a)
        if now != before:
            fail("frame-arg", f"argument changed from {before} to {now}")
    if res is not None:
        res.evaluations += 1
        if exc is not None or L1 != L0 or (ret is not None and ret is not False and ret != 0 and not (hasattr(ret, "__len__") and len(ret) == 0)):
            res.nontrivial += 1
        res.record(json.dumps(["OrderedSet", path, op]), repr(outcome))
        res.fails += fails
    key = None if rep else (tuple(L1),)
    return fails, key, dict(view_before=L0, view_after=L1, exception=exc)


def check_orderedset(OS, tier, impl, collect_outcomes=False, depth=None):
    pool, ops, inits = oset_catalogue(tier)
    depth = depth if depth is not None else 3
    res = Result("OrderedSet", f"every state reachable by <= {depth} operations from OrderedSet() over elements {pool}+[9] "
                               f"(all duplicate-free arrangements) x {len(ops)} operations (every method/operator x argument kinds list/tuple/"
                               f"one-shot iterator/set/frozenset/OrderedSet/dict, with duplicates, 0/1/2 star arguments) + {len(inits)} constructor arguments",
                 collect_outcomes)
    # constructor
    for d in inits:
        res.evaluations += 1
        inp = dict(cls="OrderedSet", impl=impl, path=[], op=["__init__", [d]], arg_has_duplicates=d[0] in ("list", "tuple", "iter") and len(set(d[1])) != len(d[1]))
        try:
            s = OS(oset_build(d, OS))
        except Exception as e:  # noqa: BLE001
            res.fails.append(Fail("OrderedSet.__init__", "exception", inp, f"raised {type(e).__name__}"))
            continue
        want = ([], []) if d[0] == "none" else ([], uniq(d[1])) if d[0] in SET_KINDS else (uniq(d[1]), [])
        if not _view_ok(list(s), want):
            res.fails.append(Fail("OrderedSet.__init__", "view", inp, f"view = {list(s)}, contract: {want}"))
        for r in oset_rep(s):
            res.fails.append(Fail("OrderedSet.__init__", "rep", inp, r))
        if list(s):
            res.nontrivial += 1
        res.record(json.dumps(["OrderedSet", [], ["__init__", [d]]]), _canon_view(list(s), want))
    # breadth-first over states; every op in every state
    seen = {((),): []}
    frontier = [((),)]
    level = 0
    mutators = [op for op in ops if op[0] in _OS_INPLACE or op[0] in ("add", "remove", "discard", "pop", "insert", "clear")]
    while frontier:
        nxt = []
        for key in frontier:
            path = seen[key]
            for op in ops:
                s = OS()
                for m, descs in path:
                    _apply_oset(OS, s, m, descs)
                fails, post, info = oset_eval_on(OS, s, path, op, impl, res)
                if post is not None and post not in seen and level < depth and op in mutators:
                    seen[post] = path + [op]
                    nxt.append(post)
                if len(res.samples) < 4 and info["view_after"] != info["view_before"] and res.evaluations % 9973 < 40 and len(path) >= min(level, 1):
                    res.samples.append(dict(cls="OrderedSet", path=path, op=op, view_before=info["view_before"], view_after=info["view_after"]))
        frontier = nxt
        level += 1
    res.states = len(seen)
    return res


# =============================================================================================== IdentitySet


def iset_build(desc, IS):
    k = desc[0]
    if k == "obj":
        return OBJS[desc[1]]
    objs = [OBJS[i] for i in desc[1]] if len(desc) > 1 and desc[1] is not None else None
    if k == "iset":
        return IS(objs)
    if k == "list":
        return list(objs)
    if k == "tuple":
        return tuple(objs)
    if k == "iter":
        return iter(list(objs))
    if k == "none":
        return None
    raise ValueError(desc)


_IS_BIN = {"union": "__or__", "difference": "__sub__", "intersection": "__and__", "symmetric_difference": "__xor__"}
_IS_UPD = {"update": "__ior__", "difference_update": "__isub__", "intersection_update": "__iand__", "symmetric_difference_update": "__ixor__"}
_IS_CMP = {"__le__": lambda a, b: a <= b, "__lt__": lambda a, b: a < b, "__ge__": lambda a, b: a >= b, "__gt__": lambda a, b: a > b,
           "__eq__": lambda a, b: a == b, "__ne__": lambda a, b: a != b}


def _iset_binop(name, K, O):
    base = {"__or__": "union", "__sub__": "difference", "__and__": "intersection", "__xor__": "symmetric_difference",
            "__ior__": "union", "__isub__": "difference", "__iand__": "intersection", "__ixor__": "symmetric_difference",
            "update": "union", "difference_update": "difference", "intersection_update": "intersection",
            "symmetric_difference_update": "symmetric_difference"}.get(name, name)
    Ou = uniq(O)
    if base == "union":
        return K + [k for k in Ou if k not in K]
    if base == "difference":
        return [k for k in K if k not in O]
    if base == "intersection":
        return [k for k in K if k in O]
    return [k for k in K if k not in O] + [k for k in Ou if k not in K]


def iset_spec(K, meth, descs):
    """K: list of object indices in insertion order -> dict(exc, view, ret)"""
    if meth == "add":
        i = descs[0][1]
        return dict(exc=None, view=K if i in K else K + [i], ret=("none", None))
    if meth in ("remove", "discard"):
        i = descs[0][1]
        if i in K:
            return dict(exc=None, view=[k for k in K if k != i], ret=("none", None))
        return dict(exc="KeyError" if meth == "remove" else None, view=K, ret=("none", None))
    if meth == "pop":
        if not K:
            return dict(exc="KeyError", view=K, ret=("none", None))
        return dict(exc=None, view=K[:-1], ret=("obj", K[-1]))
    if meth == "clear":
        return dict(exc=None, view=[], ret=("none", None))
    if meth == "__contains__":
        return dict(exc=None, view=K, ret=("value", descs[0][1] in K))
    if meth == "__len__":
        return dict(exc=None, view=K, ret=("value", len(K)))
    if meth == "__iter__":
        return dict(exc=None, view=K, ret=("iter", K))
    if meth in ("copy", "__copy__"):
        return dict(exc=None, view=K, ret=("fresh", K))
    if meth == "__hash__":
        return dict(exc="TypeError", view=K, ret=("none", None))
    if meth == "__repr__":
        return dict(exc=None, view=K, ret=("value", "IdentitySet(%r)" % ([OBJS[k] for k in K],)))
    akind = descs[0][0]
    O = list(descs[0][1]) if akind != "none" else None
    is_iset = akind == "iset"
    if meth in _IS_BIN:
        return dict(exc=None, view=K, ret=("fresh", _iset_binop(meth, K, O)))
    if meth in _IS_UPD:
        return dict(exc=None, view=_iset_binop(meth, K, O), ret=("none", None))
    if meth in _IS_BIN.values():
        if not is_iset:
            return dict(exc="TypeError", view=K, ret=("none", None))
        return dict(exc=None, view=K, ret=("fresh", _iset_binop(meth, K, O)))
    if meth in _IS_UPD.values():
        if not is_iset:
            return dict(exc="TypeError", view=K, ret=("none", None))
        return dict(exc=None, view=_iset_binop(meth, K, O), ret=("self", None))
    if meth in ("issubset", "issuperset"):
        a, b = set(K), set(O)
        return dict(exc=None, view=K, ret=("value", a <= b if meth == "issubset" else a >= b))
    if meth in _IS_CMP:
        if not is_iset:
            if meth == "__eq__":
                return dict(exc=None, view=K, ret=("value", False))
            if meth == "__ne__":
                return dict(exc=None, view=K, ret=("value", True))
            return dict(exc="TypeError", view=K, ret=("none", None))
        return dict(exc=None, view=K, ret=("value", _IS_CMP[meth](set(K), set(O))))
    raise ValueError(meth)


def iset_catalogue(tier):
    n = 4 if tier == "thorough" else 3
    idx = list(range(n))
    conts = [list(t) for k in range(0, 3) for t in itertools.permutations(idx, k)] + [[0, 0, 1], [1, 0, 1], [2, 1, 0], [1, 1]]
    if tier == "thorough":
        conts += [[3, 2, 1, 0], [0, 3, 0, 3]]
    ops = []
    for i in idx + [5]:
        ops += [[m, [["obj", i]]] for m in ("add", "remove", "discard", "__contains__")]
    ops += [[m, []] for m in ("pop", "clear", "__len__", "__iter__", "copy", "__copy__", "__hash__", "__repr__")]
    for c in conts:
        nodup = len(set(c)) == len(c)
        for k in ("iset", "list", "iter", "tuple"):
            if k == "iset" and not nodup:
                continue
            for m in list(_IS_BIN) + list(_IS_UPD) + ["issubset", "issuperset"]:
                ops.append([m, [[k, c]]])
            if k in ("iset", "list"):
                for m in list(_IS_BIN.values()) + list(_IS_UPD.values()) + list(_IS_CMP):
                    ops.append([m, [[k, c]]])
    inits = [["none"]] + [[k, c] for c in conts for k in ("iset", "list", "iter", "tuple") if not (k == "iset" and len(set(c)) != len(c))]
    return idx, ops, inits


def iset_view(s):
    return [x.n if isinstance(x, Obj) else repr(x) for x in s]


def _apply_iset(IS, s, meth, descs):
    if meth == "__copy__":
        return None, _copy.copy(s)
    if meth == "__hash__":
        try:
            return None, hash(s)
        except Exception as e:  # noqa: BLE001
            return type(e).__name__, None
    return _call(s, meth, [iset_build(d, IS) for d in descs])


def iset_eval_on(IS, s, path, op, impl, res=None):
    meth, descs = op
    fn = "IdentitySet." + meth
    K0 = iset_view(s)
    inp = dict(cls="IdentitySet", impl=impl, path=path, op=op)
    fails = []

    def fail(clause, detail):
        fails.append(Fail(fn, clause, inp, detail))
    keep = None
    if descs and descs[0][0] in ("iset", "list"):
        keep = iset_build(descs[0], IS)
        before = iset_view(keep)
        if meth in ("__copy__", "__hash__"):
            exc, ret = _apply_iset(IS, s, meth, descs)
        else:
            exc, ret = _call(s, meth, [keep])
    else:
        exc, ret = _apply_iset(IS, s, meth, descs)
    K1 = iset_view(s)
    spec = iset_spec(K0, meth, descs)
    if len(s) != len(K1) or len(set(K1)) != len(K1):
        fail("rep", f"len {len(s)} vs iteration {K1}")
    if exc != spec["exc"]:
        fail("exception", f"raised {exc}, contract: {spec['exc']}")
    if K1 != spec["view"]:
        fail("view", f"view after = {K1}, contract: {spec['view']} (view before = {K0}, argument = {descs})")
    kind, payload = spec["ret"]
    if exc is None and spec["exc"] is None:
        if kind == "none" and ret is not None:
            fail("returns", f"returned {ret!r}, contract: None")
        elif kind == "self" and ret is not s:
            fail("returns", f"in-place operator returned {'a different object ' + repr(ret)}, contract: self")
        elif kind == "value" and not (ret == payload and type(ret) is type(payload)):
            fail("returns", f"returned {ret!r}, contract: {payload!r}")
        elif kind == "obj" and ret is not OBJS[payload]:
            fail("returns", f"returned {ret!r}, contract: {OBJS[payload]!r}")
        elif kind == "iter" and iset_view(ret) != payload:
            fail("returns", "iteration order differs from the view")
        elif kind == "fresh":
            if ret is s or type(ret) is not IS:
                fail("result", f"result must be a fresh IdentitySet, got {'self' if ret is s else type(ret).__name__}")
            elif iset_view(ret) != payload:
                fail("result", f"result view = {iset_view(ret)}, contract: {payload} (self = {K0}, argument = {descs})")
    if keep is not None and iset_view(keep) != before:
        fail("frame-arg", f"argument changed from {before} to {iset_view(keep)}")
    if res is not None:
        res.evaluations += 1
        if exc is not None or K1 != K0 or (ret is not None and ret is not False and ret != 0 and not (hasattr(ret, "__len__") and len(ret) == 0)):
            res.nontrivial += 1
        rr = "self" if ret is s else iset_view(ret) if isinstance(ret, IS) or kind == "iter" and exc is None else repr(ret)
        res.record(json.dumps(["IdentitySet", path, op]), repr((exc, K1, rr)))
        res.fails += fails
    bad = any(f.clause == "rep" for f in fails)
    return fails, None if bad else tuple(K1), dict(view_before=K0, view_after=K1, exception=exc)


def iset_eval(IS, path, op, impl, res=None):
    s = IS()
    for m, descs in path:
        _apply_iset(IS, s, m, descs)
    return iset_eval_on(IS, s, path, op, impl, res)


def check_identityset(IS, tier, impl, collect_outcomes=False, depth=3):
    idx, ops, inits = iset_catalogue(tier)
    res = Result("IdentitySet", f"every state reachable by <= {depth} operations from IdentitySet() over {len(idx)}+1 objects that are all == and hash alike "
                                f"x {len(ops)} operations (every method, operator, in-place operator, comparison x argument kinds IdentitySet/list/"
                                f"one-shot iterator/tuple incl. repeated objects) + {len(inits)} constructor arguments", collect_outcomes)
    for d in inits:
        res.evaluations += 1
        inp = dict(cls="IdentitySet", impl=impl, path=[], op=["__init__", [d]])
        try:
            s = IS(iset_build(d, IS))
        except Exception as e:  # noqa: BLE001
            res.fails.append(Fail("IdentitySet.__init__", "exception", inp, f"raised {type(e).__name__}"))
            continue
        want = [] if d[0] == "none" else uniq(d[1])
        if iset_view(s) != want:
            res.fails.append(Fail("IdentitySet.__init__", "view", inp, f"view = {iset_view(s)}, contract: {want}"))
        if want:
            res.nontrivial += 1
        res.record(json.dumps(["IdentitySet", [], ["__init__", [d]]]), repr(iset_view(s)))
    seen = {(): []}
    frontier = [()]
    level = 0
    mut = set(_IS_UPD) | set(_IS_UPD.values()) | {"add", "remove", "discard", "pop", "clear"}
    while frontier:
        nxt = []
        for key in frontier:
            path = seen[key]
            for op in ops:
                s = IS()
                for m, descs in path:
                    _apply_iset(IS, s, m, descs)
                fails, post, info = iset_eval_on(IS, s, path, op, impl, res)
                if post is not None and post not in seen and level < depth and op[0] in mut:
                    seen[post] = path + [op]
                    nxt.append(post)
                if len(res.samples) < 3 and info["view_after"] != info["view_before"] and res.evaluations % 9973 < 40 and len(path) >= min(level, 1):
                    res.samples.append(dict(cls="IdentitySet", path=path, op=op, view_before=info["view_before"], view_after=info["view_after"]))
        frontier = nxt
        level += 1
    res.states = len(seen)
    return res


# =============================================================================================== immutabledict

_DICT_EXCLUDED = {"__init__", "__new__", "__init_subclass__", "__subclasshook__", "__class__", "__class_getitem__", "__getattribute__", "__dir__",
                  "__reduce__", "__reduce_ex__", "__getstate__", "__sizeof__", "__delattr__"}


def imd_build(desc, IMD):
    k = desc[0]
    if k == "none":
        return None
    if k in ("str", "int"):
        return desc[1]
    pairs = [tuple(p) for p in desc[1]]
    if k == "dict":
        return dict(pairs)
    if k == "imd":
        return IMD(dict(pairs))
    if k == "mproxy":
        return types.MappingProxyType(dict(pairs))
    if k == "pairs":
        return list(pairs)
    raise ValueError(desc)


def check_immutabledict(mod, tier, impl, collect_outcomes=False):
    IMD = mod.immutabledict
    bases = [[], [["a", 1]], [["a", 2], ["b", 3]]]
    conts = [[], [["a", 1]], [["a", 9], ["c", 3]], [["b", 2]]]
    others = [["none"]] + [[k, c] for c in conts for k in ("dict", "imd", "mproxy")]
    res = Result("immutabledict", f"union/merge_with: {len(bases)} receivers x all argument tuples of length 0..{3 if tier == 'thorough' else 2} over "
                                  f"{len(others)} arguments (None / dict / immutabledict / mappingproxy, empty and overlapping); every callable name in "
                                  f"dir(dict) x argument catalogue on immutabledict and ImmutableDictBase; | and reflected |; copy; pickle; constructor", collect_outcomes)

    def add_fail(function, clause, inp, detail):
        res.fails.append(Fail(function, clause, dict(inp, cls="immutabledict", impl=impl), detail))
    maxlen = 3 if tier == "thorough" else 2
    for b in bases:
        for meth in ("union", "merge_with"):
            for n in range(0, maxlen + 1):
                for combo in itertools.product(others, repeat=n):
                    res.evaluations += 1
                    inp = dict(base=b, op=[meth, list(combo)])
                    base = IMD(dict(map(tuple, b)))
                    args = [imd_build(d, IMD) for d in combo]
                    snap = [None if a is None else dict(a) for a in args]
                    exc, r = _call(base, meth, args)
                    want = dict(map(tuple, b))
                    nonempty = []
                    for a in args:
                        if a:
                            want.update(a)
                            nonempty.append(a)
                    if nonempty:
                        res.nontrivial += 1
                    fn = "immutabledict." + meth
                    res.record(json.dumps(["immutabledict", b, meth, list(combo)]),
                               repr((exc, None if r is None else list(dict(r).items()), type(r).__name__, r is base)))
                    if exc is not None:
                        add_fail(fn, "exception", inp, f"raised {exc}")
                        continue
                    if type(r) is not IMD:
                        add_fail(fn, "result", inp, f"result type {type(r).__name__}")
                        continue
                    if dict(r) != want or list(dict(r)) != list(want):
                        add_fail(fn, "view", inp, f"result {dict(r)}, contract (left-to-right merge): {want}")
                    if (r is base) != (not nonempty):
                        add_fail(fn, "identity", inp, f"result is self == {r is base}; contract: self iff nothing non-empty was merged")
                    if not b and len(nonempty) == 1 and type(nonempty[0]) is IMD and r is not nonempty[0]:
                        add_fail(fn, "identity", inp, "empty receiver + exactly one non-empty immutabledict: that immutabledict is returned")
                    if any(r is a for a in args if type(a) is dict):
                        add_fail(fn, "aliasing", inp, "the result is a mutable argument")
                    if dict(base) != dict(map(tuple, b)) or [None if a is None else dict(a) for a in args] != snap:
                        add_fail(fn, "frame", inp, "receiver or an argument changed")
    # mutators by reflection
    one = [["str", "a"], ["str", "z"], ["none"], ["dict", [["z", 9]]], ["dict", [["a", 5]]], ["pairs", [["z", 9]]], ["dict", []], ["imd", [["z", 1]]]]
    two = [(["str", "a"], ["int", 5]), (["str", "z"], ["int", 9]), (["str", "a"], ["none"]), (["str", "z"], ["none"])]
    kws = [{}, {"z": 9}, {"a": 5}]
    names = sorted(n for n in set(dir(dict)) | {"__setattr__"} if callable(getattr(dict, n, None)) and n not in _DICT_EXCLUDED)
    classes = [("immutabledict", IMD)]
    if hasattr(mod, "ImmutableDictBase"):
        classes.append(("ImmutableDictBase", mod.ImmutableDictBase))
    found_mut = set()
    for cname, cls in classes:
        for b in bases[1:] + bases[:1]:
            for name in names:
                for args_d, kw in [([], k) for k in kws] + [([a], k) for a in one for k in kws] + [(list(p), {}) for p in two]:
                    if kw and name != "update":
                        continue
                    res.evaluations += 1
                    plain = dict(map(tuple, b))
                    imm = cls(plain)
                    pa = [imd_build(d, IMD) for d in args_d]
                    pe, _ = _call(plain, name, pa, opform=False) if not kw else _kwcall(plain, name, pa, kw)
                    changed_plain = plain != dict(map(tuple, b)) or list(plain) != [p[0] for p in b]
                    ia = [imd_build(d, IMD) for d in args_d]
                    ie, ir = _call(imm, name, ia, opform=False) if not kw else _kwcall(imm, name, ia, kw)
                    inp = dict(cls=cname, base=b, op=[name, args_d], kwargs=kw)
                    fn = f"{cname}.{name}"
                    if dict(imm) != dict(map(tuple, b)) or list(imm) != [p[0] for p in b]:
                        res.fails.append(Fail(fn, "mutated", dict(inp, impl=impl), f"contents changed to {dict(imm)}"))
                    if changed_plain:
                        found_mut.add(name)
                        res.nontrivial += 1
                        if ie != "TypeError":
                            res.fails.append(Fail(fn, "exception", dict(inp, impl=impl), f"a dict would change; contract: TypeError; got {ie or 'no exception'}"))
                    if name in ("__setitem__", "__delitem__", "__setattr__", "clear", "pop", "popitem", "setdefault", "update", "__ior__") and ie != "TypeError":
                        if not (name == "__setattr__" and len(ia) != 2):
                            res.fails.append(Fail(fn, "exception", dict(inp, impl=impl), f"documented mutator must raise TypeError; got {ie or 'no exception'}"))
                    res.record(json.dumps([cname, b, name, args_d, kw]), repr((ie, None if ie else _short(ir))))
    res.notes.append("dict mutators found by reflection: " + ", ".join(sorted(found_mut)))
    if len(found_mut) < 7:
        res.fails.append(Fail("immutabledict", "vacuity", dict(impl=impl), f"only {sorted(found_mut)} found as dict mutators"))
    # | , reflected |, copy, pickle, constructor, repr
    for b in bases:
        for d in others[1:] + [["pairs", [["z", 1]]], ["int", 5]]:
            base = IMD(dict(map(tuple, b)))
            arg = imd_build(d, IMD)
            for form in ("or", "ror"):
                res.evaluations += 1
                inp = dict(base=b, op=["__" + form + "__", [d]])
                fn = "immutabledict.__" + form + "__"
                try:
                    want = (dict(map(tuple, b)) | (dict(arg) if isinstance(arg, IMD) else arg)) if form == "or" else ((dict(arg) if isinstance(arg, IMD) else arg) | dict(map(tuple, b)))
                    we = None
                except TypeError:
                    want, we = None, "TypeError"
                try:
                    r = (base | arg) if form == "or" else (arg | base)
                    e = None
                except Exception as ex:     # noqa: BLE001
                    r, e = None, type(ex).__name__
                res.record(json.dumps(["immutabledict", b, form, d]), repr((e, None if r is None else (type(r).__name__, list(dict(r).items())))))
                if d[0] == "mproxy" and form == "ror":
                    continue                                # mappingproxy.__or__ delegates to the wrapped dict: result type is the proxy's business
                if e != we:
                    add_fail(fn, "exception", inp, f"raised {e}, dict semantics: {we}")
                elif e is None:
                    res.nontrivial += 1
                    if dict(r) != dict(want) or list(r) != list(want):
                        add_fail(fn, "view", inp, f"result {dict(r)}, dict semantics {dict(want)}")
                    if type(r) is not IMD and not (form == "ror" and type(arg) is dict and type(r) is dict):
                        add_fail(fn, "result", inp, f"result type {type(r).__name__}")
                    if r is base and arg:
                        add_fail(fn, "identity", inp, "result is self although the operand is non-empty")
                if dict(base) != dict(map(tuple, b)):
                    add_fail(fn, "mutated", inp, "receiver changed")
        base = IMD(dict(map(tuple, b)))
        res.evaluations += 4
        if base.copy() is not base:
            add_fail("immutabledict.copy", "identity", dict(base=b, op=["copy", []]), "copy() is not self")
        p = pickle.loads(pickle.dumps(base))
        if type(p) is not IMD or dict(p) != dict(base) or list(p) != list(base):
            add_fail("immutabledict.__reduce__", "view", dict(base=b, op=["pickle", []]), f"pickle round trip gives {type(p).__name__} {dict(p)}")
        if repr(base) != "immutabledict(%r)" % (dict(map(tuple, b)),):
            add_fail("immutabledict.__repr__", "returns", dict(base=b, op=["__repr__", []]), repr(base))
        for ctor in (IMD(list(map(tuple, b))), IMD(**{k: v for k, v in b})):
            if dict(ctor) != dict(map(tuple, b)) or type(ctor) is not IMD:
                add_fail("immutabledict.__init__", "view", dict(base=b, op=["__init__", []]), f"{dict(ctor)}")
        res.record(json.dumps(["immutabledict", b, "misc"]), repr((base.copy() is base, type(p).__name__, dict(p), repr(base))))
    res.samples.append(dict(cls="immutabledict", base=bases[1], op=["union", [["dict", conts[2]], ["imd", conts[3]]]], result={"a": 9, "c": 3, "b": 2}))
    return res


def _kwcall(obj, name, args, kw):
    try:
        return None, getattr(obj, name)(*args, **kw)
    except Exception as e:      # noqa: BLE001
        return type(e).__name__, None


def _short(r):
    if isinstance(r, dict):
        return (type(r).__name__, list(r.items()))
    try:
        if hasattr(r, "__iter__") and not isinstance(r, (str, bytes)):
            return (type(r).__name__, list(r))
    except Exception:           # noqa: BLE001
        pass
    return r if isinstance(r, (int, str, bool, type(None), tuple)) else type(r).__name__


# =============================================================================================== unique_list


def check_unique_list(fn, tier, impl, collect_outcomes=False):
    pool = [1, 2, "a", (1,), None, 1.0, True, 0, False] if tier == "thorough" else [1, 2, "a", None, 1.0, True]
    maxlen = 4 if tier == "thorough" else 3
    res = Result("unique_list", f"all sequences of length <= {maxlen} over {pool!r} (1 == 1.0 == True collide) x kinds list/tuple/iterator/dict keys", collect_outcomes)
    kinds = {"list": list, "tuple": tuple, "iter": lambda c: iter(list(c)), "dict": lambda c: dict.fromkeys(c)}
    for n in range(0, maxlen + 1):
        for c in itertools.product(range(len(pool)), repeat=n):
            vals = [pool[i] for i in c]
            for kind, mk in kinds.items():
                res.evaluations += 1
                arg = mk(vals)
                src = list(arg) if kind == "dict" else vals
                try:
                    r = fn(arg)
                    exc = None
                except Exception as e:  # noqa: BLE001
                    r, exc = None, type(e).__name__
                want = uniq(src)
                inp = dict(cls="unique_list", impl=impl, op=["unique_list", [[kind, [repr(v) for v in vals]]]])
                ok = exc is None and type(r) is list and len(r) == len(want) and all(a is b or (a == b and type(a) is type(b)) for a, b in zip(r, want))
                if len(want) != len(src):
                    res.nontrivial += 1
                if not ok:
                    res.fails.append(Fail("unique_list", "view", inp, f"returned {r!r} ({exc}), contract: {want!r}"))
                elif kind == "list" and r is arg:
                    res.fails.append(Fail("unique_list", "result", inp, "returned the argument itself"))
                res.record(json.dumps(["unique_list", kind, list(c)]), repr((exc, r)))
    res.samples.append(dict(fn="unique_list", arg=["a", 1, 1.0, "a", True], result=["a", 1]))
    return res


# =============================================================================================== LRUCache


class LRUModel:
    def __init__(self, cap, thr):
        self.cap, self.thr, self.d, self.ctr, self.alerts = cap, thr, {}, 0, 0

    def touch(self, k):
        self.ctr += 1
        self.d[k][1] = self.ctr

    def get(self, k, default=None):
        if k in self.d:
            self.touch(k)
            return self.d[k][0]
        return default

    def getitem(self, k):
        if k not in self.d:
            raise KeyError(k)
        self.touch(k)
        return self.d[k][0]

    def setitem(self, k, v):
        self.ctr += 1
        self.d[k] = [v, self.ctr]
        if len(self.d) > self.cap + self.cap * self.thr:
            self.alerts += 1
            keep = sorted(self.d, key=lambda x: self.d[x][1], reverse=True)[: self.cap]
            self.d = {x: self.d[x] for x in self.d if x in keep}

    def delitem(self, k):
        del self.d[k]


def lru_apply(cache, model, op):
    """apply one op to the real cache and to the model -> (real outcome, model outcome)"""
    name = op[0]

    def both(f_real, f_model):
        out = []
        for f in (f_real, f_model):
            try:
                out.append((None, f()))
            except Exception as e:  # noqa: BLE001
                out.append((type(e).__name__, None))
        return out
    if name == "get":
        return both(lambda: cache.get(op[1], "dflt"), lambda: model.get(op[1], "dflt"))
    if name == "getitem":
        return both(lambda: cache[op[1]], lambda: model.getitem(op[1]))
    if name == "setitem":
        return both(lambda: cache.__setitem__(op[1], op[2]), lambda: model.setitem(op[1], op[2]))
    if name == "delitem":
        return both(lambda: cache.__delitem__(op[1]), lambda: model.delitem(op[1]))
    if name == "contains":                                   # Mapping.__contains__ goes through __getitem__: it is a use
        def m_contains():
            try:
                model.getitem(op[1])
                return True
            except KeyError:
                return False
        return both(lambda: op[1] in cache, m_contains)
    if name == "pop":                                        # MutableMapping.pop = self[k] then del self[k]
        def m_pop():
            v = model.getitem(op[1])
            model.delitem(op[1])
            return v
        return both(lambda: cache.pop(op[1]), m_pop)
    if name == "setdefault":
        def m_sd():
            try:
                return model.getitem(op[1])
            except KeyError:
                model.setitem(op[1], op[2])
                return op[2]
        return both(lambda: cache.setdefault(op[1], op[2]), m_sd)
    raise ValueError(op)


def lru_run(LRUCache, cap, thr, seq):
    """-> list of (step, clause, detail)"""
    alerts = []
    cache = LRUCache(cap, thr, size_alert=lambda c: alerts.append(len(c)))
    model = LRUModel(cap, thr)
    bad = []
    for i, op in enumerate(seq):
        real, want = lru_apply(cache, model, op)
        if real != want:
            bad.append((i, "returns", f"step {i} {op}: returned {real}, model {want}"))
        view = {k: cache._data[k][1] for k in cache._data}
        mview = {k: v[0] for k, v in model.d.items()}
        if view != mview:
            bad.append((i, "view", f"step {i} {op}: contents {view}, contract {mview}"))
        if len(cache) > cap + cap * thr:
            bad.append((i, "size", f"step {i} {op}: len {len(cache)} > capacity*(1+threshold) = {cap + cap * thr}"))
        if len(alerts) != model.alerts:
            bad.append((i, "size_alert", f"step {i} {op}: size_alert fired {len(alerts)} times, contract {model.alerts}"))
        if list(cache) != list(cache._data) or dict(zip(cache.keys(), cache.values())) != view or len(cache) != len(view):
            bad.append((i, "mapping-api", f"step {i} {op}: keys()/values()/len disagree with the contents"))
        if bad:
            break
    return bad, len(model.d), model.alerts


def check_lrucache(LRUCache, tier, collect_outcomes=False):
    keys = ["a", "b", "c", "d", "e"] if tier == "thorough" else ["a", "b", "c", "d"]
    configs = [(1, 0.0), (1, 0.5), (2, 0.5), (2, 1.0), (3, 0.5)] + ([(0, 0.5), (2, 0.0), (3, 0.34)] if tier == "thorough" else [])
    length = 4 if tier == "thorough" else 3
    ops = []
    for k in keys:
        ops += [["setitem", k, "v" + k], ["get", k], ["getitem", k], ["delitem", k]]
    ops += [["contains", keys[0]], ["pop", keys[1]], ["setdefault", keys[2], "sd"], ["setitem", keys[0], "w"]]
    res = Result("LRUCache", f"all operation sequences of length {length} over {len(ops)} operations (set/get/[]/del on {len(keys)} keys, in, pop, setdefault, overwrite) "
                             f"x (capacity, threshold) in {configs}", collect_outcomes)
    seen_shapes = set()
    for cap, thr in configs:
        for seq in itertools.product(ops, repeat=length):
            res.evaluations += 1
            bad, size, alerts = lru_run(LRUCache, cap, thr, seq)
            if alerts:
                shape = (cap, thr, tuple(o[0] for o in seq), size)
                if shape not in seen_shapes:
                    seen_shapes.add(shape)
            for step, clause, detail in bad[:1]:
                res.fails.append(Fail("LRUCache." + {"setitem": "__setitem__", "getitem": "__getitem__", "delitem": "__delitem__", "contains": "__contains__"}.get(seq[step][0], seq[step][0]),
                                      clause, dict(cls="LRUCache", capacity=cap, threshold=thr, ops=[list(o) for o in seq]), detail))
    res.nontrivial = len(seen_shapes)
    res.notes.append("distinct_nontrivial counts distinct (capacity, threshold, operation-name sequence, final size) shapes in which at least one eviction happened")
    res.samples.append(dict(cls="LRUCache", capacity=1, threshold=0.5, ops=[["setitem", "a", "va"], ["setitem", "b", "vb"], ["get", "a"], ["getitem", "b"]],
                            contract="after the second set len 2 > 1.5: only 'b' (most recent) survives; get('a') -> default"))
    return res


# =============================================================================================== merge_lists_w_ordering, has_dupes


def check_merge_lists(fn, tier, collect_outcomes=False):
    pool = [1, 2, 3, 4, 5] if tier == "thorough" else [1, 2, 3, 4]
    lists = [list(p) for k in range(0, len(pool) + 1) for p in itertools.permutations(pool, k)]
    if tier != "thorough":
        lists = [x for x in lists if len(x) <= 4]
    res = Result("merge_lists_w_ordering", f"all pairs of duplicate-free lists over {pool} ({len(lists)}^2 pairs)", collect_outcomes)

    def sub(r, keep):
        return [x for x in r if x in keep]
    for a in lists:
        for b in lists:
            res.evaluations += 1
            a0, b0 = list(a), list(b)
            r = fn(a0, b0)
            sa, sb = set(a), set(b)
            inp = dict(cls="merge_lists_w_ordering", a=a, b=b)
            if sa & sb and sa - sb and sb - sa:
                res.nontrivial += 1
            if sorted(r) != sorted(sa | sb):
                res.fails.append(Fail("merge_lists_w_ordering", "permutation", inp, f"result {r} is not a permutation of the union"))
                continue
            if sub(r, sa - sb) != sub(a, sa - sb):
                res.fails.append(Fail("merge_lists_w_ordering", "order-a-only", inp, f"result {r}"))
            if sub(r, sb - sa) != sub(b, sb - sa):
                res.fails.append(Fail("merge_lists_w_ordering", "order-b-only", inp, f"result {r}"))
            if sub(a, sb) == sub(b, sa) and (sub(r, sa) != a or sub(r, sb) != b):
                res.fails.append(Fail("merge_lists_w_ordering", "order-compatible", inp, f"a and b agree on their common elements but result {r} does not keep both orders"))
            if a0 != a or b0 != b:
                res.fails.append(Fail("merge_lists_w_ordering", "frame", inp, "an argument was modified"))
    res.samples.append(dict(fn="merge_lists_w_ordering", a=[1, 2, 3], b=[2, 4, 3], result=fn([1, 2, 3], [2, 4, 3])))
    return res


def check_has_dupes(fn, tier, collect_outcomes=False):
    objs = OBJS[:3]
    n = 5 if tier == "thorough" else 4
    res = Result("has_dupes", f"all sequences of length <= {n} over 3 objects that are == but not identical x each target (list and tuple)", collect_outcomes)
    for k in range(0, n + 1):
        for c in itertools.product(range(3), repeat=k):
            for t in range(3):
                for mk in (list, tuple):
                    res.evaluations += 1
                    seq = mk(objs[i] for i in c)
                    want = c.count(t) >= 2
                    got = fn(seq, objs[t])
                    if want:
                        res.nontrivial += 1
                    if got is not want:
                        res.fails.append(Fail("has_dupes", "returns", dict(cls="has_dupes", seq=list(c), target=t), f"returned {got!r}, contract {want}"))
    res.samples.append(dict(fn="has_dupes", seq=["o0", "o1", "o0"], target="o0", result=True))
    return res


# =============================================================================================== replay


def replay(function, clause, inp, classes, tier="quick"):
    """re-evaluate one recorded input on the given real classes -> list[Fail] (empty: the contract holds now).
    classes: dict(collections=<module with OrderedSet/IdentitySet/unique_list>, immutabledict=<module>, util=<util._collections>)"""
    cls = inp.get("cls")
    impl = inp.get("impl", "pure")
    if cls == "OrderedSet" and inp["op"][0] != "__init__":
        return oset_eval(classes["collections"].OrderedSet, inp["path"], inp["op"], impl)[0]
    if cls == "IdentitySet" and inp["op"][0] != "__init__":
        return iset_eval(classes["collections"].IdentitySet, inp["path"], inp["op"], impl)[0]
    if cls == "LRUCache":
        bad, _s, _a = lru_run(classes["util"].LRUCache, inp["capacity"], inp["threshold"], [tuple(o) for o in inp["ops"]])
        return [Fail(function, c, inp, d) for _i, c, d in bad]
    # stateless suites: re-run the (cheap) suite and pick the recorded input
    if cls in ("OrderedSet", "IdentitySet"):
        res = (check_orderedset if cls == "OrderedSet" else check_identityset)(getattr(classes["collections"], cls), tier, impl, depth=0)
    elif cls in ("immutabledict", "ImmutableDictBase"):
        res = check_immutabledict(classes["immutabledict"], tier, impl)
    elif cls == "unique_list":
        res = check_unique_list(classes["collections"].unique_list, tier, impl)
    elif cls == "merge_lists_w_ordering":
        res = check_merge_lists(classes["util"].merge_lists_w_ordering, tier)
    elif cls == "has_dupes":
        res = check_has_dupes(classes["util"].has_dupes, tier)
    else:
        raise ValueError(f"unknown replay input class {cls!r}")
    return [f for f in res.fails if f.function == function and f.input == inp]
