"""Harnesses for util/topological.py: every digraph on a small node set, every item subset in two orders."""
import itertools
from .harness import harness, CallSpec
from sqlalchemy.util import topological
from sqlalchemy import exc as sa_exc


class Node:
    __slots__ = ("n",)

    def __init__(self, n):
        self.n = n

    def __repr__(self):
        return f"n{self.n}"


def greatest_pred_closed(tuples, items):
    s = list(items)
    changed = True
    while changed:
        changed = False
        for x in list(s):
            if not any(c is x and any(p is y for y in s) for (p, c) in tuples):
                s.remove(x)
                changed = True
    return s


def graphs(nmax, tier):
    for n in range(0, nmax + 1):
        pairs = [(a, b) for a in range(n) for b in range(n)]
        # all edge sets (2^(n*n)); n=3 -> 512, n=4 -> 65536 (thorough only)
        for mask in range(1 << len(pairs)):
            edges = [pairs[i] for i in range(len(pairs)) if mask >> i & 1]
            yield n, edges


@harness("topological.sort_as_subsets", "every edge set on <= 3 nodes (quick) / <= 4 (thorough), self loops included, items = all nodes in 2 orders and each subset missing one node; duplicate edge once")
class SortAsSubsets:
    fn_name = "sort_as_subsets"
    is_gen = True

    def enumerate(self, tier):
        nmax = 3 if tier == "quick" else 4
        for n, edges in graphs(nmax, tier):
            orders = [list(range(n)), list(reversed(range(n)))] if n > 1 else [list(range(n))]
            for order in orders:
                yield {"n": n, "edges": edges, "items": order}
            if n >= 2 and (tier != "quick" or len(edges) <= 4):
                yield {"n": n, "edges": edges, "items": list(range(1, n))}
            if n >= 1 and len(edges) == 1:
                yield {"n": n, "edges": edges + edges, "items": list(range(n))}

    def build(self, desc):
        nodes = [Node(i) for i in range(desc["n"])]
        tuples = [(nodes[a], nodes[b]) for a, b in desc["edges"]]
        items = [nodes[i] for i in desc["items"]]
        S = greatest_pred_closed(tuples, items)
        from rtc.ceval import IdSet
        fn = getattr(topological, self.fn_name)
        return CallSpec(fn, {"tuples": tuples, "allitems": items, "S": IdSet(S)}, args=(tuples, items), is_generator=self.is_gen,
                        universe=nodes, consts={"CircularDependencyError": sa_exc.CircularDependencyError})


@harness("topological.sort", "same graphs as sort_as_subsets")
class Sort(SortAsSubsets):
    fn_name = "sort"
    is_gen = True


@harness("topological.find_cycles", "every edge set on <= 3 nodes (quick) / <= 4 (thorough), self loops included; items = all nodes, every subset missing one node (cycles that pass through a node that is not an item), and no items")
class FindCycles(SortAsSubsets):
    fn_name = "find_cycles"
    is_gen = False

    def enumerate(self, tier):
        nmax = 3 if tier == "quick" else 4
        for n, edges in graphs(nmax, tier):
            yield {"n": n, "edges": edges, "items": list(range(n))}
            if n >= 2 and edges:
                for miss in range(n):
                    yield {"n": n, "edges": edges, "items": [i for i in range(n) if i != miss]}
                yield {"n": n, "edges": edges, "items": []}
