"""Harness registry: how to drive the real function of a contract over an exhaustive small scope.

A harness has   enumerate(tier) -> iterable of JSON-able descriptors   and   build(desc) -> CallSpec.
The same descriptor is what a replay file stores (`./vcheck <ID> --replay <file>` rebuilds and re-runs it).
"""
import importlib

REGISTRY = {}


class CallSpec:
    def __init__(self, fn, bindings, args=(), kwargs=None, consts=None, self_obj=None, is_generator=False, universe=None):
        self.fn, self.bindings, self.args, self.kwargs = fn, bindings, args, kwargs or {}
        self.consts, self.self_obj, self.is_generator, self.universe = consts or {}, self_obj, is_generator, universe


def harness(name, scope=""):
    def deco(cls):
        inst = cls()
        inst.name = name
        inst.scope = scope or (cls.__doc__ or "").strip()
        REGISTRY[name] = inst
        return cls
    return deco


def get(name):
    mod = name.split(".")[0]
    importlib.import_module("rtc.h_" + mod)
    return REGISTRY[name]


def search(contract, tier="quick", limit=None, stop_at=5):
    """run the contract concretely over the harness scope.  -> (evaluations, skipped, failures[(desc, outcome)])"""
    from .ceval import run_contract
    h = get(contract.harness)
    n = sk = 0
    fails = []
    for desc in h.enumerate(tier):
        cs = h.build(desc)
        o = run_contract(contract, cs.fn, cs.bindings, cs.args, cs.kwargs, cs.consts, cs.self_obj, cs.is_generator, cs.universe)
        n += 1
        if o.skipped:
            sk += 1
            continue
        if o.failures:
            fails.append((desc, o))
            if stop_at and len(fails) >= stop_at:
                break
        if limit and n >= limit:
            break
    return n, sk, fails


def replay(contract, desc):
    from .ceval import run_contract
    h = get(contract.harness)
    cs = h.build(desc)
    return run_contract(contract, cs.fn, cs.bindings, cs.args, cs.kwargs, cs.consts, cs.self_obj, cs.is_generator, cs.universe)
