"""Harness for orm/collections.py::_list_decorators closures (integer-index operations): the real closures wrapped around the
builtin list methods, with the module-level event helpers __set/__del/__before_pop replaced by logging stubs that satisfy
their assumed contracts (ghost log `ev` on the list object)."""
import itertools
from .harness import CallSpec, REGISTRY
from .ceval import SeqV
import sqlalchemy.orm.collections as C


class IList(list):
    def __init__(self, it=()):
        list.__init__(self, it)
        self.ev = SeqV(())


def _set(collection, item, _sa_initiator, key):
    collection.ev = collection.ev + [("A", item)]
    return item


def _del(collection, item, _sa_initiator, key):
    collection.ev = collection.ev + [("R", item)]


def _before_pop(collection, _sa_initiator=None):
    pass


class X:
    def __init__(self, n):
        self.n = n

    def __repr__(self):
        return f"x{self.n}"


POOL = [X(0), X(1), X(2), None]


class H:
    def __init__(self, name, argspec):
        self.opname, self.argspec = name, argspec
        self.scope = f"lists of <= 3 items over 3 objects and None; {argspec} with every index -5..5"

    def enumerate(self, tier):
        for n in range(0, 4):
            for items in itertools.product(range(4), repeat=n):
                if self.argspec == "item":
                    for v in range(4):
                        yield {"items": list(items), "item": v}
                elif self.argspec == "index":
                    for i in range(-5, 6):
                        yield {"items": list(items), "index": i}
                else:
                    for i in range(-5, 6):
                        yield {"items": list(items), "index": i, "item": 0}

    def build(self, desc):
        deco = C._list_decorators()[self.opname]
        wrapped = deco(getattr(list, self.opname))
        lst = IList(POOL[i] for i in desc["items"])
        bind, args = {}, []
        names = {"append": ["item"], "remove": ["value"], "insert": ["index", "value"], "__setitem__": ["index", "value"],
                 "__delitem__": ["index"], "pop": ["index"]}[self.opname]
        for nm in names:
            v = desc["index"] if nm == "index" else POOL[desc["item"]]
            bind[nm] = v
            args.append(v)
        def call(*a):
            saved = {k: C.__dict__[k] for k in ("__set", "__del", "__before_pop")}
            C.__dict__["__set"], C.__dict__["__del"], C.__dict__["__before_pop"] = _set, _del, _before_pop
            try:
                return wrapped(lst, *a)
            finally:
                C.__dict__.update(saved)
        return CallSpec(call, bind, args=tuple(args), self_obj=lst, universe=POOL,
                        consts={"NO_KEY": C.NO_KEY})


for nm, spec in [("append", "item"), ("remove", "item"), ("insert", "index+item"), ("__setitem__", "index+item"), ("__delitem__", "index"), ("pop", "index")]:
    h = H(nm, spec)
    key = "ilist." + {"__setitem__": "setitem", "__delitem__": "delitem"}.get(nm, nm)
    h.name = key
    REGISTRY[key] = h
