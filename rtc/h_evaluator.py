"""Harnesses for orm/evaluator.py closures: real closures built by the real _EvaluatorCompiler."""
import itertools
from .harness import harness, CallSpec
from sqlalchemy.orm import evaluator as ev

VALS = {"None": None, "True": True, "False": False, "EXPIRED": ev._EXPIRED_OBJECT}
CONSTS = {"_EXPIRED_OBJECT": ev._EXPIRED_OBJECT, "_NO_OBJECT": ev._NO_OBJECT}


def _const_eval(v):
    return lambda obj: v


class _ClauseList:
    meth = None

    def enumerate(self, tier):
        maxlen = 3 if tier == "quick" else 5
        for n in range(0, maxlen + 1):
            for combo in itertools.product(sorted(VALS), repeat=n):
                yield {"values": list(combo)}

    def build(self, desc):
        evaluators = [_const_eval(VALS[v]) for v in desc["values"]]
        fn = getattr(ev._EvaluatorCompiler(), self.meth)(None, evaluators, None)
        obj = object()
        return CallSpec(fn, {"evaluators": evaluators, "obj": obj}, args=(obj,), consts=CONSTS)


@harness("evaluator.and_", "all clause lists of length <= 3 (quick) / 5 (thorough) over {None, True, False, EXPIRED}")
class And(_ClauseList):
    meth = "visit_and_clauselist_op"


@harness("evaluator.or_", "all clause lists of length <= 3 (quick) / 5 (thorough) over {None, True, False, EXPIRED}")
class Or(_ClauseList):
    meth = "visit_or_clauselist_op"


@harness("evaluator.not_", "the four values {None, True, False, EXPIRED}")
class Not_:
    def enumerate(self, tier):
        for v in sorted(VALS):
            yield {"value": v}

    def build(self, desc):
        from sqlalchemy.sql import operators

        class Clause:
            operator = operators.inv
            element = None
        comp = ev._EvaluatorCompiler()
        inner = _const_eval(VALS[desc["value"]])
        comp.process = lambda element: inner
        fn = comp.visit_unary(Clause())
        obj = object()
        return CallSpec(fn, {"eval_inner": inner, "obj": obj}, args=(obj,), consts=CONSTS)
