"""Harness for DefaultDialect.reset_isolation_level: the real method on a real DefaultDialect whose
_assert_and_set_isolation_level records the level on a fake DBAPI connection (ghost field iso_level)."""
from .harness import harness, CallSpec
from sqlalchemy.engine.default import DefaultDialect


class Conn:
    def __init__(self):
        self.iso_level = "LEFT-BY-PREVIOUS-USER"
        self.txn_open = False


@harness("pool_reset.reset_isolation_level", "engine-wide level in {None, AUTOCOMMIT, = default} x default level in {SERIALIZABLE, READ COMMITTED, None}")
class ResetIso:
    def enumerate(self, tier):
        for on_connect in (None, "AUTOCOMMIT", "=default"):
            for default in ("SERIALIZABLE", "READ COMMITTED", None):
                yield {"on_connect": on_connect, "default": default}

    def build(self, desc):
        d = DefaultDialect()
        d.default_isolation_level = desc["default"]
        d._on_connect_isolation_level = desc["default"] if desc["on_connect"] == "=default" else desc["on_connect"]
        d._assert_and_set_isolation_level = lambda conn, level: setattr(conn, "iso_level", level)
        c = Conn()
        return CallSpec(d.reset_isolation_level, {"dbapi_conn": c}, args=(c,), self_obj=d)
