"""Pool-level history runner over the fake DBAPI (shared by checks/C25_bounded.py and checks/C26_bounded.py).

It drives a REAL ``sqlalchemy.pool`` pool (``rtc.fakedbapi.make_pool``) through a history of operations, optionally with a
fault plan, and evaluates — after EVERY step and once more after every holder has released — the clauses below against the
ghost ledger.  The ghost takes the *release semantics* from the documentation: a holder is released by ``close()``, by a hard
``invalidate()``, by ``Pool._invalidate(fairy)`` (which invalidates the fairy = checks the record in, DESIGN §2.9) and by
dropping the last reference; a soft invalidation does not release.  The harness keeps fairies in ``held`` only (no hidden
references: exception objects are never stored).

operations   co            checkout (``pool.connect()``)
             ci0 ci1       ``held.pop(i).close()``
             inv0 inv1     ``held.pop(i).invalidate()``                  (hard)
             soft0         ``held[0].invalidate(soft=True)``             (the holder keeps it)
             poolinv0      ``pool._invalidate(held.pop(0))``             (pool-wide, generation of that connection)
             gc0           drop the reference to ``held[0]`` + ``gc.collect(0)``
             use0          ``held[0].cursor().execute(...)``             (opens a transaction on the fake driver)
             tick          the virtual clock jumps past ``recycle``
             cof           checkout while the next ``connect()`` of the driver fails (creator failure)

clauses      P1 limit      QueuePool with max_overflow > -1 and pool_size > 0: #ledger-open <= pool_size + max_overflow
             P2 idle       QueuePool with pool_size > 0: #idle <= pool_size
             P3 count      QueuePool: ``checkedout()`` == number of live holders
             P4 exclusive  QueuePool / NullPool: no DBAPI connection is referenced by two live fairies
             P5 handed-out a successful checkout returns a connection that is not ledger-closed, was not soft- or
                           hard-invalidated, does not predate a pool-wide invalidation of its generation, is not older than
                           ``recycle``, and (reset_on_return != None) has no open transaction
             P6 idle-open  no idle connection is ledger-closed
             P7 no-zombie  no DBAPI call ever reaches a connection the ledger has as closed
             P8 spurious   a checkout fails only when a fault fired in it or the QueuePool limit is reached; at the limit it
                           raises ``TimeoutError``
  after all holders released (and gc):
             R1            QueuePool: ``checkedout() == 0``
             R2            every ledger-open connection is idle in the pool (NullPool: none is open)
             R3            no idle connection is ledger-closed
             R4            no slot leaked: pool_size + max_overflow further checkouts (bounded QueuePool; else 2) all succeed,
                           each satisfying P5, P4
"""
import gc

from rtc import fakedbapi as F

OPS_ALL = ["co", "ci0", "ci1", "inv0", "inv1", "soft0", "poolinv0", "gc0", "use0", "tick", "cof"]


class Fail(Exception):
    def __init__(self, clause, detail):
        self.clause, self.detail = clause, detail


def make(cfg, L):
    from sqlalchemy import pool as sapool, event, exc as sa_exc
    kw = dict(reset_on_return=cfg.get("reset_on_return", "rollback"), pre_ping=bool(cfg.get("pre_ping")))
    if cfg.get("recycle"):
        kw["recycle"] = cfg["recycle"]
    kind = cfg["pool"]
    if kind == "queue":
        p = F.make_pool(L, sapool.QueuePool, pool_size=cfg["pool_size"], max_overflow=cfg["max_overflow"], timeout=0,
                        use_lifo=bool(cfg.get("lifo")), **kw)
    elif kind == "null":
        p = F.make_pool(L, sapool.NullPool, **kw)
    elif kind == "static":
        p = F.make_pool(L, sapool.StaticPool, **kw)
    elif kind == "singleton":
        p = F.make_pool(L, sapool.SingletonThreadPool, pool_size=cfg.get("pool_size", 5), **kw)
    else:
        raise ValueError(kind)
    if cfg.get("checkout_listener"):
        def on_checkout(dbapi_conn, rec, proxy):
            try:
                L.call("checkout_event", dbapi_conn)
            except F.DisconnectError:
                raise sa_exc.InvalidatePoolError("listener: server restarted")
            except F.Error:
                raise sa_exc.DisconnectionError("listener: this connection is dead")
        event.listen(p, "checkout", on_checkout)
    return p


def run_history(cfg, ops, faults=(), trace=False, clauses=None):
    """faults: [(n, exc)] — the n-th DBAPI call (any kind, counted from the start of the history) raises.
    -> dict(calls, fired, failure, steps)"""
    from sqlalchemy import exc as sa_exc
    L = F.Ledger(trace=trace)
    F.install_clock(L.clock)
    p = make(cfg, L)
    for n, x in faults:
        L.plan[("*", n)] = x
    kind = cfg["pool"]
    queue = kind == "queue"
    bounded = queue and cfg["max_overflow"] > -1 and cfg["pool_size"] > 0
    cap = cfg["pool_size"] + cfg["max_overflow"] if bounded else None
    recycle = cfg.get("recycle")
    reset = cfg.get("reset_on_return", "rollback")
    exclusive = kind in ("queue", "null")
    held = []
    G = dict(pool_inv=0.0, soft=set(), hard=set(), at_op=None, at_fired="", refused=0)
    steps = []
    failure = None
    want = clauses

    def on(c):
        return want is None or c in want

    def check_handed(f, where):
        dc = f.dbapi_connection
        if dc is None:
            raise Fail("P5-handed-out-nothing", f"{where}: fairy without a DBAPI connection")
        if dc.closed:
            raise Fail("P5-handed-out-closed", f"{where}: {dc!r} is ledger-closed")
        if dc.id in G["hard"]:
            raise Fail("P5-handed-out-invalidated", f"{where}: {dc!r} was hard-invalidated")
        if dc.id in G["soft"]:
            raise Fail("P5-handed-out-soft-invalidated", f"{where}: {dc!r} was soft-invalidated and is handed out again")
        if not dc.opened_at > G["pool_inv"]:
            raise Fail("P5-predates-pool-invalidation", f"{where}: {dc!r} opened_at={dc.opened_at} <= invalidation {G['pool_inv']}")
        if recycle and L.clock.now - dc.opened_at > recycle + 50:
            raise Fail("P5-older-than-recycle", f"{where}: {dc!r} age {L.clock.now - dc.opened_at} > recycle {recycle}")
        if reset is not None and dc.txn_open and on("P5-txn"):
            raise Fail("P5-handed-out-in-transaction", f"{where}: {dc!r} has an open transaction")

    def invariants(where):
        if L.use_after_close:
            raise Fail("P7-call-on-closed-connection", f"{where}: {L.use_after_close}")
        idle = F.idle_connections(p)
        if any(c.closed for c in idle):
            raise Fail("P6-idle-closed", f"{where}: idle {idle!r} contains a closed connection")
        if queue:
            if bounded and len(L.open) > cap:
                raise Fail("P1-limit", f"{where}: {len(L.open)} open DBAPI connections > pool_size+max_overflow={cap}")
            if cfg["pool_size"] > 0 and len(idle) > cfg["pool_size"]:
                raise Fail("P2-idle", f"{where}: {len(idle)} idle > pool_size={cfg['pool_size']}")
            if p.checkedout() != len(held):
                raise Fail("P3-checkedout-count", f"{where}: checkedout()={p.checkedout()} live holders={len(held)}")
        if exclusive:
            live = [h.dbapi_connection for h in held if h.dbapi_connection is not None]
            if len(set(map(id, live))) != len(live):
                raise Fail("P4-two-holders", f"{where}: {live!r}")

    def mark_pool_inv(dc, stamp):
        # documented: "If this pool's last invalidate time is before when the given connection was created, update the
        # timestamp til now.  Otherwise, no action is performed."
        if dc is None or G["pool_inv"] < dc.opened_at:
            G["pool_inv"] = stamp

    def checkout(where):
        n_held, nf = len(held), len(L.fired)
        err = None
        try:
            held.append(p.connect())
        except BaseException as ex:  # noqa — classified here, not kept
            err = (type(ex).__name__, isinstance(ex, sa_exc.TimeoutError), str(ex)[:120])
        fired = L.fired[nf:]
        for f in fired:
            # a disconnect verdict inside the checkout (pre-ping / checkout listener) invalidates the generation
            if f["exc"] == "disconnect" and f["kind"] in ("ping", "checkout_event") and f["conn"]:
                mark_pool_inv(L.conns[f["conn"] - 1], f["at"])
            if f["kind"] in ("ping", "checkout_event") and f["conn"]:
                G["hard"].add(f["conn"])        # the connection the check failed on is discarded
        if err is None:
            check_handed(held[-1], where)
        else:
            at_limit = bounded and n_held >= cap
            if at_limit:
                G["refused"] += 1
            if at_limit and not err[1]:
                raise Fail("P8-limit-wrong-exception", f"{where}: at the limit, expected TimeoutError, got {err[0]}: {err[2]}")
            if not at_limit and not fired:
                raise Fail("P8-spurious-checkout-failure", f"{where}: {err[0]}: {err[2]} with {n_held} holders and no fault")
        return err, fired

    def step(i, op):
        nf = len(L.fired)
        r = None
        G["at_op"], G["at_fired"] = op, ""
        try:
            return _step(i, op, nf, r)
        finally:
            G["at_fired"] = "+".join(f["kind"] for f in L.fired[nf:])

    def _step(i, op, nf, r):
        if op == "co":
            r, _ = checkout(f"step {i} co")
        elif op == "cof":
            key = ("connect", L.calls["connect"] + 1)
            had = key in L.plan
            if not had:
                L.plan[key] = "error"
            try:
                r, _ = checkout(f"step {i} cof")
            finally:
                if not had:
                    L.plan.pop(key, None)
        elif op in ("ci0", "ci1", "inv0", "inv1", "gc0", "poolinv0"):
            idx = int(op[-1])
            if len(held) <= idx:
                return "n/a"
            dc = held[idx].dbapi_connection
            try:
                if op.startswith("ci"):
                    held.pop(idx).close()
                elif op.startswith("inv"):
                    if dc is not None:
                        G["hard"].add(dc.id)
                    held.pop(idx).invalidate()
                elif op == "gc0":
                    held.pop(idx)
                    gc.collect(0)
                else:
                    stamp = L.stamp()
                    mark_pool_inv(dc, stamp)
                    if dc is not None:
                        G["hard"].add(dc.id)
                    p._invalidate(held.pop(idx), None)
            except BaseException as ex:  # noqa
                r = (type(ex).__name__, False, str(ex)[:120])
        elif op == "soft0":
            if not held or held[0].dbapi_connection is None:
                return "n/a"
            G["soft"].add(held[0].dbapi_connection.id)
            try:
                held[0].invalidate(soft=True)
            except BaseException as ex:  # noqa
                r = (type(ex).__name__, False, str(ex)[:120])
        elif op == "use0":
            if not held or held[0].dbapi_connection is None:
                return "n/a"
            try:
                held[0].cursor().execute("insert into t values (1)")
            except BaseException as ex:  # noqa
                r = (type(ex).__name__, False, str(ex)[:120])
        elif op == "tick":
            if not recycle:
                return "n/a"
            L.clock.advance(recycle + 100)
        if trace:
            steps.append(dict(op=op, raised=r and r[0], fired=[dict(f) for f in L.fired[nf:]],
                              held=[repr(h.dbapi_connection) for h in held], idle=repr(F.idle_connections(p)),
                              ledger=[(repr(c), "closed" if c.closed else "open", c.opened_at) for c in L.conns],
                              checkedout=p.checkedout() if queue else None, pool_invalidate_time=p._invalidate_time))
        return r

    na = False
    try:
        for i, op in enumerate(ops):
            if step(i, op) == "n/a":
                na = True
                break
            invariants(f"after step {i} {op}")
        calls = L.total
        G["closed_in_ops"] = len(L.closed)
        G["refused_in_ops"] = G["refused"]
        if not na:
            # ---- release everything
            while held:
                try:
                    held.pop().close()
                except BaseException:  # noqa
                    pass
            gc.collect(0)
            G["at_op"] = "release-all"
            if trace:
                steps.append(dict(op="release-all", idle=repr(F.idle_connections(p)),
                                  ledger=[(repr(c), "closed" if c.closed else "open") for c in L.conns],
                                  checkedout=p.checkedout() if queue else None))
            if queue and p.checkedout() != 0:
                raise Fail("R1-checkedout-after-release", f"checkedout()={p.checkedout()} with no holder")
            idle = F.idle_connections(p)
            leaked = [c for c in L.open if not any(c is d for d in idle)]
            if leaked:
                raise Fail("R2-open-connection-not-in-pool", f"open {L.open!r}, idle {idle!r}: {leaked!r} is neither idle nor closed")
            if any(c.closed for c in idle):
                raise Fail("R3-idle-closed", f"idle {idle!r}")
            invariants("after release")
            # ---- R4: the pool still has all its slots
            L.plan.clear()
            G["at_op"] = "refill"
            for j in range(cap if bounded else 2):
                err, _ = checkout(f"refill checkout {j + 1}")
                if err is not None:
                    raise Fail("R4-slot-leaked", f"refill checkout {j + 1} of {cap if bounded else 2}: {err[0]}: {err[2]}")
                if kind in ("static", "singleton"):
                    held.pop().close()
            invariants("after refill")
            while held:
                held.pop().close()
    except Fail as fl:
        failure = dict(clause=fl.clause, detail=fl.detail, at_op=G["at_op"], at_fired=G["at_fired"])
        calls = L.total
    finally:
        while held:
            try:
                held.pop().close()
            except BaseException:  # noqa
                pass
        try:
            p.dispose()
        except BaseException:  # noqa
            pass
        F.install_clock(None)
    return dict(calls=calls, fired=[(f["kind"], f["total"], f["exc"]) for f in L.fired], failure=failure, na=na, steps=steps,
                refused=G.get("refused_in_ops", G["refused"]), closed=G.get("closed_in_ops", len(L.closed)), opened=len(L.conns))
