"""Harness for event/attr.py::_ClsLevelDispatch.update_subclass: the real method on a real _ClsLevelDispatch whose _clslevel is
pre-filled for subsets of a diamond hierarchy Base <- A, B <- C(A, B) with listener lists drawn from 3 functions."""
import collections
import itertools
from .harness import harness, CallSpec
from sqlalchemy.event.attr import _ClsLevelDispatch


class Base: pass
class A(Base): pass
class B(Base): pass
class C(A, B): pass


CLASSES = {"Base": Base, "A": A, "B": B, "C": C}


def f1(): pass
def f2(): pass
def f3(): pass


FNS = {"f1": f1, "f2": f2, "f3": f3}
_KEEP = []      # dispatch objects are kept alive: their weakref clean-up callback is not part of what is checked
LISTS = [[], ["f1"], ["f2"], ["f1", "f2"], ["f3", "f1"]]


@harness("events.update_subclass", "diamond hierarchy; every assignment of 5 listener lists to every subset of {Base, A, B, C} (quick: subsets of size <= 3 with the target absent or holding one list); target in all 4 classes")
class UpdateSubclass:
    def enumerate(self, tier):
        names = list(CLASSES)
        for tgt in names:
            others = [n for n in names if n != tgt]
            for present in itertools.chain.from_iterable(itertools.combinations(others, k) for k in range(0, len(others) + 1)):
                opts = LISTS if tier != "quick" else LISTS[:4]
                for lists in itertools.product(opts, repeat=len(present)):
                    for tl in (None, [], ["f3"]):
                        yield {"target": tgt, "present": dict(zip(present, lists)), "target_list": tl}

    def build(self, desc):
        d = object.__new__(_ClsLevelDispatch)
        _KEEP.append(d)
        d._clslevel = {}
        for n, l in desc["present"].items():
            d._clslevel[CLASSES[n]] = collections.deque(FNS[x] for x in l)
        if desc["target_list"] is not None:
            d._clslevel[CLASSES[desc["target"]]] = collections.deque(FNS[x] for x in desc["target_list"])
        t = CLASSES[desc["target"]]
        return CallSpec(d.update_subclass, {"target": t}, args=(t,), self_obj=d, universe=list(CLASSES.values()) + list(FNS.values()))
