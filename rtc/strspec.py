"""Spec functions and plumbing shared by the string-level bounded checks C05, C06, C08, C20.

Everything here is *specification* (the documented lexers of the backends, the definition of SQL LIKE, the
enumeration of a finite scope, process fan-out, reporting).  Nothing here copies or models code of /repo: the
checks call the real sqlalchemy functions and compare what they return with these definitions.
"""
import itertools
import json
import multiprocessing
import os

# --------------------------------------------------------------------------------------------- enumeration


def strings(alphabet, maxlen, minlen=0):
    """all strings over `alphabet` with minlen <= len <= maxlen, shortest first, in alphabet order"""
    out = []
    for n in range(minlen, maxlen + 1):
        out.extend("".join(t) for t in itertools.product(alphabet, repeat=n))
    return out


def chunks(seq, n):
    """split seq into n interleaved slices (balanced when cost grows along seq)"""
    n = max(1, min(n, len(seq)))
    return [seq[i::n] for i in range(n)]


def jobs():
    try:
        j = int(os.environ.get("VERIF_JOBS", "0") or 0)
    except ValueError:
        j = 0
    if j > 0:
        return j
    # the machine is shared: take the cores the 1-minute load average leaves free, at least 2, at most 12
    ncpu = os.cpu_count() or 2
    try:
        free = ncpu - int(os.getloadavg()[0])
    except OSError:
        free = ncpu
    return max(2, min(12, ncpu, free))


def pmap(fn, tasks):
    """run fn over tasks in forked worker processes (the workers inherit the already imported sqlalchemy tree)"""
    tasks = list(tasks)
    if len(tasks) <= 1 or jobs() == 1:
        return [fn(t) for t in tasks]
    ctx = multiprocessing.get_context("fork")
    with ctx.Pool(min(jobs(), len(tasks))) as pool:
        return pool.map(fn, tasks, chunksize=1)


# --------------------------------------------------------------------------------------------- LIKE (spec)


def like_match(p, s, esc):
    """SQL `s LIKE p ESCAPE esc`, case-sensitive: '%' any run, '_' exactly one character, `esc c` the literal c
    (an escape character at the very end of the pattern matches nothing)."""
    lp, ls = len(p), len(s)

    def m(i, j):
        while i < lp:
            c = p[i]
            if esc is not None and c == esc:
                if i + 1 >= lp:
                    return False
                if j < ls and s[j] == p[i + 1]:
                    i += 2
                    j += 1
                    continue
                return False
            if c == "%":
                i += 1
                if i == lp:
                    return True
                for k in range(j, ls + 1):
                    if m(i, k):
                        return True
                return False
            if c == "_":
                if j < ls:
                    i += 1
                    j += 1
                    continue
                return False
            if j < ls and s[j] == c:
                i += 1
                j += 1
                continue
            return False
        return j == ls

    return m(0, 0)


# --------------------------------------------------------------------------------------------- driver layer


def driver_percent(text, paramstyle):
    """What the server receives: DBAPIs with the `format` / `pyformat` paramstyle run the statement through `%`
    formatting, so `%%` becomes `%` and any other `%` is a formatting error (returns None).
    Other paramstyles pass the text through."""
    if paramstyle not in ("format", "pyformat"):
        return text
    out = []
    i = 0
    n = len(text)
    while i < n:
        c = text[i]
        if c == "%":
            if i + 1 < n and text[i + 1] == "%":
                out.append("%")
                i += 2
                continue
            return None
        out.append(c)
        i += 1
    return "".join(out)


# --------------------------------------------------------------------------------------------- string literal lexers

# MySQL manual, "String Literals", table "Special Character Escape Sequences"
_MYSQL_ESC = {"0": "\0", "'": "'", '"': '"', "b": "\b", "n": "\n", "r": "\r", "t": "\t", "Z": "\x1a", "\\": "\\"}
# PostgreSQL manual 4.1.2.2 (backslash escapes, as applied to ordinary '...' constants when
# standard_conforming_strings is off)
_PG_ESC = {"b": "\b", "f": "\f", "n": "\n", "r": "\r", "t": "\t"}


def lex_string_literal(text, pos=0, backslash=None, nprefix=False):
    """Lex ONE string literal starting at text[pos]; returns (decoded, end) or None.

    ANSI: ' ( any-char-but-quote | '' )* ' .  backslash='mysql' / 'pg' adds that server's backslash escapes.
    nprefix: an optional N prefix (national character literal, MSSQL) is accepted."""
    i = pos
    n = len(text)
    if nprefix and i < n and text[i] == "N":
        i += 1
    if i >= n or text[i] != "'":
        return None
    i += 1
    out = []
    while i < n:
        c = text[i]
        if backslash and c == "\\":
            if i + 1 >= n:
                return None
            d = text[i + 1]
            if backslash == "mysql":
                if d in _MYSQL_ESC:
                    out.append(_MYSQL_ESC[d])
                elif d in "%_":
                    out.append("\\" + d)  # kept with the backslash outside of pattern context
                else:
                    out.append(d)
            else:
                if d in _PG_ESC:
                    out.append(_PG_ESC[d])
                elif d in "01234567xuU":
                    return None  # numeric escapes: never legitimately produced for this scope -> undecodable
                else:
                    out.append(d)
            i += 2
            continue
        if c == "'":
            if i + 1 < n and text[i + 1] == "'":
                out.append("'")
                i += 2
                continue
            return "".join(out), i + 1
        out.append(c)
        i += 1
    return None


def decode_single_literal(text, backslash=None, nprefix=False):
    """decoded value if `text` is exactly one string literal token and nothing else, else None"""
    r = lex_string_literal(text, 0, backslash, nprefix)
    if r is None or r[1] != len(text):
        return None
    return r[0]


_DIGITS = "0123456789"


def tokens(text, backslash=None, nprefix=False):
    """Coarse SQL token list [(kind, value)]: kind in str / num / word / punct.  None if a literal does not end.
    Used to state 'the rendered literal is one token' and to recognise `FUNC('lit', 'fmt')` shapes."""
    out = []
    i = 0
    n = len(text)
    while i < n:
        c = text[i]
        if c.isspace():
            i += 1
            continue
        if c == "'" or (nprefix and c == "N" and i + 1 < n and text[i + 1] == "'"):
            r = lex_string_literal(text, i, backslash, nprefix)
            if r is None:
                return None
            out.append(("str", r[0]))
            i = r[1]
            continue
        if c in _DIGITS or (c == "." and i + 1 < n and text[i + 1] in _DIGITS):
            j = i
            while j < n and (text[j] in _DIGITS or text[j] == "."):
                j += 1
            if j < n and text[j] in "eE":
                k = j + 1
                if k < n and text[k] in "+-":
                    k += 1
                if k < n and text[k] in _DIGITS:
                    while k < n and text[k] in _DIGITS:
                        k += 1
                    j = k
            out.append(("num", text[i:j]))
            i = j
            continue
        if c.isalpha() or c == "_":
            j = i
            while j < n and (text[j].isalnum() or text[j] in "_$"):
                j += 1
            out.append(("word", text[i:j]))
            i = j
            continue
        if c == "-" and i + 1 < n and text[i + 1] == "-":
            out.append(("punct", "--"))  # comment start
            i += 2
            continue
        out.append(("punct", c))
        i += 1
    return out


# --------------------------------------------------------------------------------------------- quoted identifier lexer


def decode_quoted_identifier(text, initial, final):
    """name if `text` is exactly one delimited identifier `initial ... final` in which the final quote character
    stands for itself only when doubled; else None"""
    if len(text) < len(initial) + len(final) or not text.startswith(initial):
        return None
    i = len(initial)
    n = len(text)
    out = []
    while i < n:
        if text.startswith(final, i):
            if text.startswith(final, i + len(final)):
                out.append(final)
                i += 2 * len(final)
                continue
            return "".join(out) if i + len(final) == n else None
        out.append(text[i])
        i += 1
    return None


# --------------------------------------------------------------------------------------------- reporting


class Findings:
    """collects contract failures, splits them into known findings and new violations, writes a bounded number of
    replay files (every failure is counted; exit code 1 as soon as one is new)"""

    def __init__(self, run, max_replays=8, per_clause=3):
        self.run = run
        self.max_replays = max_replays
        self.per_clause = per_clause
        self.written = {}  # clause -> replay files written
        self.new = 0
        self.known = {}  # what -> [count, first input]

    def add(self, fail):
        """fail: dict(function=..., input={...}, expected=..., actual=..., [symptom=...], [clause=...])"""
        inp = json.dumps(fail["input"], sort_keys=True, ensure_ascii=False)
        k = self.run.match_known(function=fail["function"], input=inp, symptom=fail.get("symptom", ""),
                                 clause=fail.get("clause", ""))
        if k is not None:
            rec = self.known.setdefault(k["what"], [0, inp, k])
            rec[0] += 1
            return
        self.new += 1
        clause = fail.get("clause", "case")
        if sum(self.written.values()) < self.max_replays and self.written.get(clause, 0) < self.per_clause:
            self.written[clause] = self.written.get(clause, 0) + 1
            self.run.violation("%s-%s-%d" % (clause, fail["function"], self.new), fail)

    def extend(self, fails):
        for f in fails:
            self.add(f)

    def finish(self):
        for what, (n, first, k) in self.known.items():
            self.run.known_finding(k, "%d input(s) in this scope, e.g. %s" % (n, first))
        if self.new > sum(self.written.values()):
            self.run.coverage["violations_beyond_replay_cap"] = self.new - sum(self.written.values())
        self.run.coverage["contract_failures_new"] = self.new
        self.run.coverage["contract_failures_known"] = sum(v[0] for v in self.known.values())
