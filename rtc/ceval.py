"""Concrete evaluation of sidecar contracts on the real functions (DESIGN §2.1/§2.4).

The clause text is the same text pyvc proves; here it is evaluated with Python's eval over a namespace of
spec functions with plain-Python definitions.  Used for (a) replaying / searching counterexamples of failed
obligations on the real code, (b) the bounded stand-ins (never counted as proof).
"""
import ast
import itertools
import types


class Skip(Exception):
    pass


def _ident_in(x, coll):
    for y in coll:
        if y is x or y == x:
            return True
    return False


class IdSet:
    """set by identity-or-equality that tolerates unhashable members (contract-level sets)"""

    def __init__(self, it=()):
        self.items = []
        for x in it:
            if not _ident_in(x, self.items):
                self.items.append(x)

    def __contains__(self, x):
        return _ident_in(x, self.items)

    def __iter__(self):
        return iter(self.items)

    def __len__(self):
        return len(self.items)

    def __eq__(self, o):
        o = IdSet(o)
        return len(self) == len(o) and all(x in o for x in self.items)

    def __le__(self, o):
        return all(x in o for x in self.items)

    def __ge__(self, o):
        return all(x in self for x in o)

    def __or__(self, o):
        return IdSet(list(self.items) + list(o))

    def __and__(self, o):
        return IdSet([x for x in self.items if x in o])

    def __sub__(self, o):
        return IdSet([x for x in self.items if x not in o])

    def __xor__(self, o):
        o = IdSet(o)
        return IdSet([x for x in self.items if x not in o] + [x for x in o if x not in self])

    def __repr__(self):
        return "IdSet(%r)" % (self.items,)


class SeqV(tuple):
    """contract-level sequence value: a tuple that concatenates with and equals lists (the symbolic side has one
    sequence sort); elements compare by identity-or-equality"""

    def __add__(self, o):
        return SeqV(tuple(self) + tuple(o))

    def __radd__(self, o):
        return SeqV(tuple(o) + tuple(self))

    def __getitem__(self, i):
        r = tuple.__getitem__(self, i)
        return SeqV(r) if isinstance(i, slice) else r

    def __eq__(self, o):
        try:
            o = tuple(o)
        except TypeError:
            return False
        return len(self) == len(o) and all(a is b or a == b for a, b in zip(self, o))

    def __ne__(self, o):
        return not self.__eq__(o)

    __hash__ = tuple.__hash__


def seq(x):
    if isinstance(x, dict):
        return SeqV(x.keys())
    return SeqV(x)


def setof(x):
    return IdSet(x)


def no_dups(s):
    s = list(s)
    return all(not _ident_in(s[i], s[:i]) for i in range(len(s)))


def addall(s, t):
    r = list(s)
    for x in t:
        if not _ident_in(x, r):
            r.append(x)
    return SeqV(r)


def filt(p, s):
    return SeqV(x for x in s if p(x))


def index(s, x):
    for i, y in enumerate(s):
        if y is x or y == x:
            return i
    return -1


def count(s, x):
    return sum(1 for y in s if y is x or y == x)


def prefix(s, n):
    return SeqV(tuple(s)[:n])


def cat(a, b):
    return SeqV(tuple(a) + tuple(b))


def rev(a):
    return SeqV(reversed(tuple(a)))


def is_tuple(x, n):
    return isinstance(x, tuple) and len(x) == n


def pair(a, b):
    return (a, b)


def contents(x):
    if isinstance(x, dict):
        return SeqV(x.keys())
    return SeqV(x)


def keys(d):
    return SeqV(d.keys())


def dget(d, k):
    return d.get(k)


def dhas(d, k):
    return k in d


def implies(a, b):
    return (not a) or bool(b)


def ite(c, a, b):
    return a if c else b


def call(f, *a):
    return f(*a)


def rng(*a):
    return range(*a)


def truth(x):
    return bool(x)


def typeis(x, c):
    return type(x) is c


def isinst(x, c):
    return isinstance(x, c)


def reach_plus(tuples, a, b, within=None):
    """is there a non-empty path a ->+ b in the graph of `tuples` (optionally only through nodes of `within`)"""
    seen = []
    frontier = [a]
    while frontier:
        x = frontier.pop()
        for (p, c) in tuples:
            if (p is x or p == x) and (within is None or (_ident_in(p, within) and _ident_in(c, within))):
                if c is b or c == b:
                    return True
                if not _ident_in(c, seen):
                    seen.append(c)
                    frontier.append(c)
    return False


def on_cycle(tuples, x, within=None):
    return reach_plus(tuples, x, x, within)


def has_cycle(tuples, items):
    return any(on_cycle(tuples, x, items) for x in items)


BASE_NS = dict(reach_plus=reach_plus, on_cycle=on_cycle, has_cycle=has_cycle, seq=seq, setof=setof, no_dups=no_dups, addall=addall, filt=filt, index=index, count=count, prefix=prefix,
               cat=cat, rev=rev, is_tuple=is_tuple, pair=pair, contents=contents, keys=keys, dget=dget, dhas=dhas,
               implies=implies, ite=ite, call=call, rng=rng, truth=truth, typeis=typeis, isinst=isinst, idof=id,
               allocated=lambda x: True, listof=lambda x: x, intof=lambda x: x, fresh=lambda x: True, values=lambda d: SeqV(d.values()))


def flatten_universe(vals, depth=3):
    out = []

    def add(x, d):
        if isinstance(x, (str, bytes, int, float, bool, type(None))) and not isinstance(x, bool) and x is not None:
            if not _ident_in(x, out):
                out.append(x)
            return
        if not _ident_in(x, out):
            out.append(x)
        if d <= 0:
            return
        if isinstance(x, dict):
            for k, v in x.items():
                add(k, d - 1)
                add(v, d - 1)
        elif isinstance(x, (list, tuple, set, frozenset)):
            for y in x:
                add(y, d - 1)
    for v in vals:
        add(v, depth)
    return out


class OldCollector(ast.NodeTransformer):
    """replace old(<expr>) by __old[<i>] (no bound variables inside: evaluated eagerly before the call) or by
    __oldeval(<i>, {bound names}) (expression mentions variables bound by an enclosing lambda / comprehension: evaluated
    lazily against a snapshot of the pre-state namespace)"""

    def __init__(self):
        self.exprs = []      # (expr node, lazy?)
        self.scope = []

    def _bound(self):
        out = set()
        for s in self.scope:
            out |= s
        return out

    def visit_Lambda(self, node):
        self.scope.append({a.arg for a in node.args.args})
        self.generic_visit(node)
        self.scope.pop()
        return node

    def _comp(self, node):
        names = set()
        for g in node.generators:
            for n in ast.walk(g.target):
                if isinstance(n, ast.Name):
                    names.add(n.id)
        self.scope.append(names)
        self.generic_visit(node)
        self.scope.pop()
        return node

    visit_GeneratorExp = visit_ListComp = visit_SetComp = visit_DictComp = _comp

    def visit_Call(self, node):
        if isinstance(node.func, ast.Name) and node.func.id == "old" and len(node.args) == 1:
            e = node.args[0]
            used = {n.id for n in ast.walk(e) if isinstance(n, ast.Name)} & self._bound()
            idx = len(self.exprs)
            self.exprs.append((e, bool(used)))
            if used:
                new = ast.Call(func=ast.Name(id="__oldeval", ctx=ast.Load()),
                               args=[ast.Constant(idx), ast.Dict(keys=[ast.Constant(n) for n in sorted(used)],
                                                               values=[ast.Name(id=n, ctx=ast.Load()) for n in sorted(used)])], keywords=[])
            else:
                new = ast.Call(func=ast.Name(id="__oldget", ctx=ast.Load()), args=[ast.Constant(idx)], keywords=[])
            return ast.copy_location(new, node)
        self.generic_visit(node)
        # lazy evaluation of the logical connectives (the symbolic side is total; Python would raise on e.g. None.attr)
        if isinstance(node.func, ast.Name) and node.func.id == "implies" and len(node.args) == 2:
            return ast.copy_location(ast.BoolOp(op=ast.Or(), values=[ast.UnaryOp(op=ast.Not(), operand=node.args[0]), node.args[1]]), node)
        if isinstance(node.func, ast.Name) and node.func.id == "ite" and len(node.args) == 3:
            return ast.copy_location(ast.IfExp(test=node.args[0], body=node.args[1], orelse=node.args[2]), node)
        return node


class SnapObj:
    """attribute snapshot of an object (one level of containers copied)"""

    def __init__(self, obj, depth):
        names = list(getattr(obj, "__dict__", {}).keys())
        for klass in type(obj).__mro__:
            sl = getattr(klass, "__slots__", ())
            names += [sl] if isinstance(sl, str) else list(sl)
        for n in names:
            try:
                object.__setattr__(self, n, snap_deep(getattr(obj, n), depth - 1))
            except AttributeError:
                pass
        object.__setattr__(self, "_snap_of", obj)


def snap_deep(x, depth=2):
    import collections
    if isinstance(x, (str, bytes, int, float, bool, type(None), tuple, frozenset, type)) or callable(x) and not hasattr(x, "__dict__"):
        return x
    if isinstance(x, (list, dict, set, collections.deque)) and type(x) in (list, dict, set, collections.deque):
        return x.copy()
    if hasattr(x, "copy") and isinstance(x, (list, dict, set)):
        try:
            return x.copy()
        except Exception:
            pass
    if type(x).__name__ in ("IdentitySet", "OrderedSet", "immutabledict"):
        return x.copy() if hasattr(x, "copy") else x
    if depth <= 0 or isinstance(x, types.FunctionType) or isinstance(x, types.MethodType):
        return x
    if hasattr(x, "__dict__") or hasattr(type(x), "__slots__"):
        try:
            return SnapObj(x, depth)
        except Exception:
            return x
    return x


def snap(x):
    """value snapshot of a view (views are tuples / IdSets / scalars; lists and dicts are copied shallowly)"""
    if isinstance(x, list):
        return SeqV(x)
    if isinstance(x, dict):
        return dict(x)
    if isinstance(x, (set, frozenset)):
        return IdSet(x)
    return x


class Outcome:
    def __init__(self):
        self.skipped = False
        self.failures = []      # (clause kind, index, text, detail)
        self.result = None
        self.exc = None
        self.out = None


def _compile(expr):
    tree = ast.parse(expr, mode="eval")
    coll = OldCollector()
    tree = ast.fix_missing_locations(coll.visit(tree))
    olds = [(compile(ast.fix_missing_locations(ast.Expression(e)), "<old>", "eval"), lazy) for e, lazy in coll.exprs]
    return compile(tree, "<contract>", "eval"), olds


def run_contract(contract, fn, bindings, args=None, kwargs=None, consts=None, self_obj=None, is_generator=False, universe=None, frame_locals=None):
    """Evaluate `contract` around one concrete call.

    bindings: names visible to the clauses (parameters, free variables, ghost parameters)
    fn(*args, **kwargs) is the real call.  Returns Outcome.
    """
    o = Outcome()
    ns = dict(BASE_NS)
    ns.update(consts or {})
    ns.update(bindings)
    if self_obj is not None:
        ns["self"] = self_obj
    uni = universe if universe is not None else flatten_universe(list(bindings.values()))
    ns["forall"] = lambda f: all(f(*c) for c in itertools.product(uni, repeat=f.__code__.co_argcount))
    ns["exists"] = lambda f: any(f(*c) for c in itertools.product(uni, repeat=f.__code__.co_argcount))
    for i, cl in enumerate(contract.requires):
        code, _ = _compile(cl)
        if not eval(code, ns):
            o.skipped = True
            return o
    # raise conditions are over the pre-state
    must = {}
    all_raises = dict(contract.raises, **contract.c_raises)
    for exc_name, cond in all_raises.items():
        code, _ = _compile(cond)
        must[exc_name] = bool(eval(code, ns))
    may = {}
    for exc_name, cond in contract.may_raise.items():
        code, _ = _compile(cond)
        may[exc_name] = bool(eval(code, ns))
    compiled = []
    ns_old = None
    for i, cl in enumerate(list(contract.ensures) + list(contract.c_ensures)):
        code, olds = _compile(cl)
        vals = []
        for oc, lazy in olds:
            if lazy:
                if ns_old is None:
                    ns_old = dict(ns)
                    for k_, v_ in list(bindings.items()) + ([("self", self_obj)] if self_obj is not None else []):
                        ns_old[k_] = snap_deep(v_)
                vals.append(oc)
            else:
                try:
                    vals.append(("val", snap(eval(oc, ns))))
                except Exception as e:      # e.g. old(len(x)) where x does not exist yet: only an error if the clause really uses it
                    vals.append(("err", e))
        compiled.append((i, cl, code, vals))
    ycompiled = [(i, cl) + _compile(cl) for i, cl in enumerate(contract.yields)]
    args = args or ()
    kwargs = kwargs or {}
    exc = None
    out = []
    try:
        res = fn(*args, **kwargs)
        if is_generator:
            gen = res
            res = None
            while True:
                try:
                    y = next(gen)
                except StopIteration:
                    break
                loc = dict(gen.gi_frame.f_locals) if gen.gi_frame is not None else {}
                yns = dict(ns)
                yns.update(loc)
                yns.update(yielded=y, out=tuple(out))
                for i, cl, code, olds in ycompiled:
                    try:
                        ok = eval(code, yns)
                    except Exception as e:      # clause not evaluable concretely
                        ok = True
                    if not ok:
                        o.failures.append(("yield", i, cl, f"yielded={y!r}"))
                out.append(tuple(y) if isinstance(y, list) else y)
    except Exception as e:
        exc = e
    o.exc = exc
    o.out = tuple(out)
    if exc is not None:
        name = type(exc).__name__
        names = [c.__name__ for c in type(exc).__mro__]
        decl = [n for n in list(all_raises) + list(contract.may_raise) if n in names]
        if not decl:
            o.failures.append(("raise", 0, f"unexpected {name}", repr(exc)[:200]))
        else:
            d = decl[0]
            allowed = must.get(d, may.get(d))
            if not allowed:
                o.failures.append(("raise", 0, f"{d} raised although its condition is false", repr(exc)[:200]))
            # exceptional postconditions over the locals at the raise
            loc = {}
            tb = exc.__traceback__
            code_obj = getattr(fn, "__code__", None)
            while tb is not None:
                if code_obj is None or tb.tb_frame.f_code is code_obj or tb.tb_frame.f_code.co_name == contract.qualname.split(".")[-1]:
                    loc = dict(tb.tb_frame.f_locals)
                tb = tb.tb_next
            ens = dict(ns)
            ens.update(loc)
            ens.update(out=tuple(out))
            for i, cl in enumerate(contract.exc_ensures.get(d, [])):
                code, _olds = _compile(cl)
                try:
                    ok = eval(code, ens)
                except Exception:
                    ok = True
                if not ok:
                    o.failures.append(("exc_ensures", i, cl, ""))
        return o
    for exc_name, cond in must.items():
        if cond:
            o.failures.append(("must-raise", 0, f"{exc_name} expected: {all_raises[exc_name]}", f"returned {res!r}"[:200]))
    o.result = res
    ens = dict(ns)
    ens.update(result=res, out=tuple(out))
    for i, cl, code, olds in compiled:
        def _oldget(idx, olds_=olds):
            tag, v = olds_[idx]
            if tag == "err":
                raise v
            return v
        ens["__oldget"] = _oldget
        ens["__oldeval"] = (lambda olds_, nso: (lambda idx, b: eval(olds_[idx], dict(nso, **b))))(olds, ns_old)
        try:
            ok = eval(code, ens)
        except Skip:
            continue
        if not ok:
            o.failures.append(("ensures", i, cl, f"result={res!r}"[:200]))
    return o
