#!/bin/sh
# re-run every seeded change (seeded/<ID>/patch.diff) against the current checks in scratch worktrees; one line per seed
cd "$(dirname "$0")/.."
for d in seeded/C*; do
  name=$(basename $d); id=${name%%-*}
  WT=/tmp/wt-all-$name
  git -C /repo worktree add --detach $WT HEAD >/dev/null 2>&1 || { echo "$id worktree-failed"; continue; }
  if ! git -C $WT apply "$(pwd)/$d/patch.diff" 2>/dev/null; then echo "$name patch-does-not-apply (repo fix commits may have touched the same lines)"; git -C /repo worktree remove --force $WT; continue; fi
  (cd /tmp && PYTHONPATH=/repo/lib timeout 600 /venv/bin/python "$OLDPWD/$d/demo.py" >/dev/null 2>&1); d0=$?
  (cd /tmp && PYTHONPATH=$WT/lib timeout 600 /venv/bin/python "$OLDPWD/$d/demo.py" >/dev/null 2>&1); d1=$?
  out=$(VERIF_REPO=$WT timeout 2400 ./vcheck $id 2>&1); e=$?
  n=$(echo "$out" | grep -c "^VIOLATION")
  echo "$name demo_unmodified=$d0 demo_modified=$d1 check_exit=$e violations=$n $(echo "$out" | grep '^VIOLATION' | head -1 | cut -c1-140)"
  git -C /repo worktree remove --force $WT
done
