#!/usr/bin/env python3
"""Regenerate MANIFEST.json from the table below (kept valid against /root/.vp/MANIFEST.schema.json)."""
import json
import os

ROOT = os.path.dirname(os.path.dirname(os.path.abspath(__file__)))
BASELINE = json.load(open("/root/.vp/BASELINE.json"))

PROOF_TECH = "contract-based deductive verification: VCs generated from the Python AST of the real functions (pyvc), discharged by z3/cvc5; bounded run-time contract check as a labelled complement"
BOUNDED_TECH = "run-time contracts on the real functions over an exhaustive small scope (bounded stand-in, not proof)"

CHECKS = {
    "C19": dict(level="proof", technique=PROOF_TECH, design="DESIGN.md §5 C19",
                text="sort_as_subsets is proved for every finite graph and item order (67 obligations from the current source) and find_cycles is proved SOUND (every reported node is on a cycle, for any transitive relation containing the edges; 64 obligations) and COMPLETE (for an arbitrary ghost cycle c0 -> c1 -> ... -> ck -> c0 among the edges, c0 is reported; 137 obligations: the depth-first pass rooted at c0 ends with a visited set that is closed under the edges, hence -- induction along the cycle, lemma proved in Lean -- contains the whole cycle, whose last node recorded the edge back to c0), so it returns precisely the nodes that lie on some cycle; for sort_as_subsets: each yielded subset is exactly the ready items in input order, exhaustion emits every item once with predecessors strictly earlier, and exhaustion is impossible while a non-empty pred-closed set exists; at the raise the remaining set is a non-empty pred-closed subset (cycle by the Lean lemma). Bounded complement: same contract on all digraphs <= 3/4 nodes.",
                note="assumed: finite sequences, value identity for elements; Lean lemma pred_closed_iff_cycle; termination not proved; sort is proved as the flattening of sort_as_subsets' contract (each item once, dependencies first; flat lemmas proved in Lean); _gen_edges is bounded only (exhaustive <= 3/4 nodes)"),
    "C25": dict(level="proof", technique=PROOF_TECH, design="DESIGN.md §5 C25",
                text="QueuePool overflow accounting (_inc_overflow/_dec_overflow/_do_get/_do_return_conn) is proved in a monitor-with-interference model: other threads may change the shared counters and the queue at every statement outside the lock, at lock acquisition and around calls out of the pool, subject to the monitor invariant slots + pending == pool_size + _overflow, _overflow <= max_overflow, which is proved before every such point and at every exit (ghost claim accounting) — so slots <= pool_size + max_overflow under any schedule of these atomic steps; util.queue.Queue (put/get in all three blocking modes) against its representation invariant, with a ghost monotonic clock: a timed get/put raises Empty/Full only once its whole timeout has elapsed, however often Condition.wait returns early (stolen or spurious wake-ups); plus a syntactic lock-discipline obligation. Bounded complement: sequential pool histories and real waiter threads on deterministic schedules with stolen wake-ups.",
                note="interleaving granularity = statements outside locks / whole critical sections (no explicit schedule enumeration); assumed contracts on _create_connection, record.close() (Full path) and Condition.wait(); 'one connection never held by two checkouts' beyond the queue contract is not decided; other pool classes not covered"),
    "C34": dict(level="proof", technique=PROOF_TECH, design="DESIGN.md §5 C34",
                text="every method of the _WeakInstanceDict container (add, replace, _add_unpresent, get, __getitem__, __contains__, contains_state, fast_get_state, safe_discard, _fast_discard, _manage_incoming/removed_state) is proved against a whole-map postcondition: add never overwrites a live different instance (raises, map unchanged), discards remove only the given state, every other key is untouched. SessionTransaction._remove_snapshot (SAVEPOINT release): everything the savepoint recorded as new/dirty/deleted and every primary-key switch flushed inside it is handed to the enclosing transaction, whose other entries are untouched.",
                note="weakref liveness constant during a call (GC-race arms proved unreachable sequentially); loading/Session.get paths and the database are outside the proof (bounded complement)"),
    "C48": dict(level="proof", technique=PROOF_TECH, design="DESIGN.md §5 C48",
                text="InstanceState._modified_event is proved to maintain, on every exit including the inlined autobegin raising: modified and attached to a session => the state holds a strong reference to its object (quick tier: the attr-is-None paths, 93 obligations; thorough tier: all 317 paths / 1880 obligations incl. committed_state 'first write wins'). Bounded complement: histories with dropped references + gc.collect() + commit compared with SQLite, 8 Session configurations.",
                note="weakref and _instance_dict pure during the call; _commit_all release and the weak identity map bounded only; GC semantics assumed"),
    "C50": dict(level="proof", technique=PROOF_TECH, design="DESIGN.md §5 C50",
                text="OrderingList._order_entity, reorder (loop invariant: prefix ordered), append, insert, pop, remove, __delitem__ are proved: the list-model postcondition on the sequence and the representation invariant position(self[i]) == ordering_func(i) restored, for lists of any length. Bounded complement: operation sequences on bound and un-instrumented OrderingLists and association proxies against list/set/dict models.",
                note="ghost position field; entities distinct; __setitem__ / inherited list methods / proxies bounded only (several known findings)"),
    "C52": dict(level="proof", technique=PROOF_TECH, design="DESIGN.md §5 C52",
                text="ScopedRegistry.__init__/__call__/has/set/clear are proved against the map view (the current scope's entry is returned or created exactly once, also when another thread wins the race while the factory runs; every other scope's entry and the key order untouched); ThreadLocalRegistry.__init__/__call__/has/set/clear against the current thread's slot (may-be-absent attribute); scoped_session.__init__ (a scopefunc gives a ScopedRegistry, none gives thread-local storage) remove() for both registry kinds (the current Session closed and discarded, no other Session touched, none created) and __call__(**kw) on the thread-local registry (the scope's Session, the same on repeated calls; configuring arguments are refused once a Session exists). Bounded complement: real threads - sequential short-lived threads with recycled idents, every interleaving of call,call,remove,call over 2 threads and a prefix over 3, thread and scopefunc scopes.",
                note="scopefunc pure within a call; interference only at the factory call (dict operations atomic in CPython: assumed); threading.local semantics trusted; Session.close abstract (ghost flag); scoped_session.__call__(**kw) and proxy methods bounded only"),
    "C54": dict(level="proof", technique=PROOF_TECH, design="DESIGN.md §5 C54",
                text="every OrderedSet method and operator, unique_list and IdentitySet (IdentitySet operand) is proved from the pure-Python source against 'set semantics with first-insertion order' (views via the spec functions addall/filt), representation invariants and frames included; the two known defects are reported as KNOWN-FINDING with every input outside their class proved. immutabledict: _union_other (behind union / merge_with) returns an immutabledict holding, for every key, the value of the last argument that has it (else self's), modifies nothing, and every mutator refuses with TypeError. LRUCache: get/[]/[]=/del and _manage_size (lock given back on every exit, size bound, LRU retention). Bounded complement: pure and compiled builds against reference models.",
                note="argument kinds are a case split (list with duplicates / set / IdentitySet); inductive lemmas filt_cong, addall_cat, filt_snoc assumed (Lean status in lemmas/); merge_lists_w_ordering and the compiled builds are bounded only; the .so cannot be rebuilt here"),
    "C10": dict(level="proof", technique=PROOF_TECH, design="DESIGN.md §5 C10",
                text="the three cursor fetch strategies are proved: CursorFetchStrategy (rows pass through from the DBAPI cursor unchanged, in order), FullyBufferedCursorFetchStrategy (fetchone/fetchmany/fetchall deliver a prefix of the buffer and leave exactly the rest; an empty batch soft-closes) and BufferedRowCursorFetchStrategy: _buffer_rows / fetchone / fetchmany / fetchall are proved against the view total = buffer ++ rows left in the cursor: each call returns a prefix of total and leaves exactly the rest, _buffer_rows never loses a row and is only called on an empty buffer, fetchmany(0) is never sent to the driver. Bounded complement: all Result API operation sequences against a list model.",
                note="assumed PEP-249 cursor contract; handle_exception NoReturn; _soft_close clears the buffer; the Result API classes are bounded only"),
    "C21": dict(level="proof", technique=PROOF_TECH, design="DESIGN.md §5 C21",
                text="SQLCompiler._truncated_identifier (length <= label_length, memo idempotent, earlier names keep their rendering, counters only grow), IdentifierPreparer._truncate_and_render_maxlen_name (length <= max_) and truncate_and_render_index/constraint_name (the kind-specific limit applies when the dialect defines it) are proved for all lengths with strings modelled by length. Bounded complement: naming conventions x dialect families x limits.",
                note="strings by length only; md5/apply_map pure; preconditions label_length >= 6, max_ >= 8; uniqueness within a statement bounded only"),
    "C23": dict(level="proof", technique=PROOF_TECH, design="DESIGN.md §5 C23",
                text="the context-manager protocol of transactions (TransactionalContext.__enter__ / __exit__ / _trans_ctx_check) is proved: entering links the transaction to its subject and remembers the enclosing one; leaving restores the enclosing link and clears its own on all 26 paths (commit, rollback, close, and exceptions out of any of them); using the subject inside a block whose transaction has ended raises. The life cycle of the concrete classes is proved too: RootTransaction.__init__ (attached and active, or -- BEGIN failed -- not at all), _close_impl/_do_commit/_do_close/_do_rollback and Transaction.close/rollback/commit (detached and inactive on every exit; the asserts in their finally blocks discharged) and NestedTransaction.__init__ (pushing keeps the savepoint chain well formed) / _deactivate_from_connection / _close_impl / _do_commit / _do_close / _do_rollback (inactive on every exit, popped off the connection, the enclosing savepoint becomes current) / _cancel (recursive, over a ghost chain of handles: every savepoint handle ends inactive and none stays current, also after out-of-order ends). Bounded complement: ghost nested-transaction model after every step of every operation sequence on file-backed SQLite, incl. recovery after a first deviation.",
                note="abstract contracts on the operations called through the context manager; Connection.begin/begin_nested and NestedTransaction.__init__ (which builds the chain) bounded only; SQLite stands for a backend"),
    "C24": dict(level="proof", technique=PROOF_TECH, design="DESIGN.md §5 C24",
                text="the reset path is proved: _ConnectionFairy._reset leaves no open transaction for reset_on_return rollback/commit (or was told, under a call-site precondition, that the transaction is already reset) and DefaultDialect.reset_isolation_level restores the engine-wide level; DefaultDialect._set_connection_characteristics schedules exactly one reset finalizer per call behind those already pending (none when the call is refused); _finalize_fairy (end of a checkout, explicit or by the garbage collector; sync dialects, non-detached) runs the reset, invalidates the record when the reset fails with an Exception, checks the record in exactly once and ignores stale gc callbacks; ghost txn_open / iso_level per DBAPI connection. Bounded complement: all pool histories on a fake DBAPI incl. multi-call / engine-level execution options.",
                note="assumed driver contracts (do_rollback/do_commit/_assert_and_set_isolation_level); _finalize_fairy, checkin and Connection.close only in the bounded complement; server-side state outside"),
    "C26": dict(level="proof", technique=PROOF_TECH, design="DESIGN.md §5 C26",
                text="the _ConnectionRecord layer is proved against a ghost 'closed' flag per DBAPI connection: __connect leaves no half-open record when the creator fails, invalidate/close/__close close what they drop, get_connection never hands out a closed connection nor one that predates a pool-wide or soft invalidation (it is closed and replaced by a fresh one; on failure the record holds nothing), checkin runs every finalizer and returns the record exactly once (never on a double check-in); _checkin_failed (failed checkout) empties the record and hands it back once; _finalize_fairy checks a finished checkout in exactly once (shared with C24); _ConnectionFairy._checkout (pre-ping / checkout-event retry loop) hands out only a live connection that is the record's and on which no disconnect was detected (ghost flag set by the assumed pre-ping / listener contracts); QueuePool._do_get gives its overflow claim back when the creator fails with ANY exception class (shared with C25). Bounded complement: a fault of four exception classes (DBAPI error, disconnect, plain Exception, BaseException) at every DBAPI call position of every pool history.",
                note="assumed externals (_invoke_creator, _close_connection, _return_conn); event hooks do not raise; checkout/_finalize_fairy/pre-ping retry loop bounded only"),
    "C27": dict(level="proof", technique=PROOF_TECH, design="DESIGN.md §5 C27",
                text="Connection._handle_dbapi_exception is proved on every exit (it never returns): the per-call flags are reset; an error classified as a disconnect (dialect, exit exception, or handle_error listener) leaves the Connection without a DBAPI connection (invalidated) and the pool is told only together with that; an ordinary error invalidates nothing. Connection.invalidate, _revalidate_connection (an invalidated connection gets a fresh DBAPI connection only when no transaction is pending; a closed one never) and the closed / invalidated properties are proved against their definitions. The end of life of a root transaction is proved too (RootTransaction._close_impl, _do_commit, _deactivate_from_connection, 148 obligations over all paths incl. the DBAPI rollback/commit raising): it is deactivated and `connection._transaction is not self` on every exit of rollback/close, so an invalidated connection never keeps a dead transaction that would block reconnecting. Bounded complement: a disconnect / ordinary error injected at every DBAPI call position of every history on a fake DBAPI, 4 handle_error listener modes.",
                note="quick tier: _handle_dbapi_exception without handle_error listeners (66 paths), thorough: all paths; dialect.is_disconnect an arbitrary boolean (real drivers' classification outside); Pool._invalidate and the pooled connection's invalidate assumed not to raise; the pool bounded only"),
    "C28": dict(level="proof", technique=PROOF_TECH, design="DESIGN.md §5 C28",
                text="_ClsLevelDispatch.update_subclass is proved for any MRO and any prior registry state: afterwards the target's collection holds, after what it held, every listener of every ancestor that has a collection, nothing else, and every other class's collection is untouched (loop invariant over the MRO). The exec-once family of _CompoundListener (_exec_once_impl, exec_once, exec_once_unless_exception) is proved in the monitor-with-interference reading: with two ghost counters (successful dispatches, final failures) the invariant `ok + final <= 1 and _exec_once == (ok + final == 1)` holds at every release of the exec-once mutex whatever other threads do (counters monotone: rely/guarantee), so exec_once dispatches at most once overall and nothing dispatches again after a success. Bounded complement: listen/remove/dispatch histories against a ghost registry, incl. nested and concurrent (two threads, forced schedule) dispatches of once listeners.",
                note="other listener containers (_ListenerCollection, _EventKey, registry), util.only_once and _exec_w_sync_on_first_run bounded only; WeakKeyDictionary modelled as dict; interleaving granularity = statements outside the mutex"),
    "C36": dict(level="proof", technique=PROOF_TECH, design="DESIGN.md §5 C36",
                text="History.from_scalar_attribute and from_object_attribute are proved against the documented conventions for every combination of committed value / current value / sentinels (all paths); _ScalarAttributeImpl.set / delete are proved to record the value before the first change since the last flush in committed_state (first write wins), to store / remove the attribute in the instance dict, and to leave every other attribute alone, also when a listener raises. Bounded complement: mutation sequences on mapped attributes incl. flush.",
                note="is_equal pure; from_collection, the attribute impls and _modified_event are bounded only"),
    "C38": dict(level="proof", technique=PROOF_TECH, design="DESIGN.md §5 C38",
                text="the instrumented list operations with an integer index (append, insert, remove, __setitem__, __delitem__, pop) and extend / += / clear are proved to produce list's contents, return value and exception and exactly the right ghost event log, for lists of any length; remove(absent) firing an event is a KNOWN-FINDING. All 13 instrumented set operations (add, discard, remove, pop, clear, update, difference_update, intersection_update, symmetric_difference_update, |= -= &= ^=) are proved for set arguments: members as the builtin's, and an event log that accounts exactly (order-insensitively for the bulk operations) for the members that arrived and left; dict __setitem__, __delitem__, pop, popitem, setdefault, clear likewise (events over the values). Bounded complement: all list/set/dict operations incl. slices side by side with the builtins.",
                note="assumed contracts on the event helpers __set/__set_wo_mutation/__del; list slices, dict update(**kw) and non-set iterable arguments bounded only"),
    "C35": dict(level="proof", technique=PROOF_TECH, design="DESIGN.md §5 C35",
                text="the five InstanceState lifecycle predicates are proved equal to their documented definitions over (key is None, _attached, _deleted) and the partition (exactly one holds) is a full-domain lemma over those postconditions; native replay on all 8 valuations. The transitions out of the session (InstanceState._detach_states) are proved: afterwards no state is attached, identity keys are dropped exactly when to_transient asks for it, and the lifecycle events fired account exactly for the states that were persistent / deleted / pending. Bounded complement: all histories of session operations on one or two objects (incl. cascades) against the documented automaton.",
                note="other transitions and events are bounded only; `_attached` is read as a boolean attribute; rollback of a flushed-deleted new object excluded by precondition"),
    "C43": dict(level="proof", technique=PROOF_TECH, design="DESIGN.md §5 C43",
                text="the AND / OR / NOT evaluator closures are proved against SQL three-valued truth tables for clause lists of any length with arbitrary pure sub-evaluators; the known AND defect is reported as KNOWN-FINDING and every input outside its class is proved.",
                note="oracle: SQL 3VL; sub-evaluators pure; _NO_OBJECT not judged; synchronize_session plumbing and the database are outside"),
}

def B(text, note, design, level="exploration"):
    return dict(level=level, technique=BOUNDED_TECH, design=design, text=text, note=note)


CHECKS.update({
    "C05": B("run-time contract on the real literal processors / render_literal_value: the rendered text is exactly one literal token of the dialect's documented lexer and decodes to the bound value; exhaustive strings over an adversarial alphabet x 11 dialect variants, numeric/date boundary lists, executed on in-process sqlite3. Bounded: labelled exploration, not proof (str.replace chains are undecidable in the installed solvers).",
             "assumed lexers for the non-SQLite backends; SQLite's checked by execution; strings <= 4 (quick) / 5 (thorough)", "DESIGN.md §5 C05"),
    "C06": B("run-time contracts on IdentifierPreparer (escape/unescape inverse pair, unformat_identifiers over quoted dotted names, quote() is bare only for legal bare identifiers, reserved-word adequacy probed on in-process sqlite3) over all names <= 4 of an adversarial alphabet x 12 preparers. Bounded exploration.",
             "other backends' keyword sets are outside (no server); SQLite instantiates the assumed backend contract", "DESIGN.md §5 C06"),
    "C08": B("run-time contract on operators._escaped_like_impl and the compiled startswith/endswith/contains patterns: like_match(pattern, s, esc) <=> the literal prefix/suffix/substring relation, for all (other, s) <= 3 chars over {% _ / \\ ' a A} x 3 escapes x 12 operators, like_match validated against sqlite3 LIKE. Bounded exploration.",
             "each backend's LIKE == like_match (checked for SQLite only)", "DESIGN.md §5 C08"),
    "C09": B("inverse-pair contract result_processor(bind_processor(v)) == v and exactly-once ghost counters for TypeDecorator, over 48 types on the SQLite dialect (processor pairs and a real in-memory sqlite3 INSERT/SELECT), 44 on DefaultDialect, 20 driver-independent types on 4 server dialects, 27 nesting contexts. Bounded exploration.",
             "server-dialect processors that consume driver-specific Python types, drivers and servers are outside", "DESIGN.md §5 C09"),
    "C37": B("two-object representation invariant (b in a.children <=> b.parent is a; symmetric membership; one-to-one uniqueness) evaluated after every operation of every in-memory sequence <= 3 (quick) / 4 (thorough) over 50/22/34 operations on o2m, o2o, m2m back_populates pairs, plus flush+expire+reload. Bounded exploration.",
             "in-memory agreement only (plus SQLite reload); handlers recurse through the event system and are outside the pyvc subset", "DESIGN.md §5 C37"),
    "_C48_bounded_only": B("postconditions of InstanceState._modified_event / _commit_all (strong reference held while modified, released after commit) and database == model after dropping every reference + gc.collect() + commit, over all histories <= 4 (quick) / 5 (thorough) of 14 operations on SQLite memory. Bounded exploration.",
             "CPython refcount/GC semantics assumed", "DESIGN.md §5 C48"),
    "C49": dict(level="proof", technique=PROOF_TECH, design="DESIGN.md §5 C49, §11.6",
                text="every in-place mutator of MutableDict (__setitem__, __delitem__, pop, popitem, setdefault, clear), MutableList (append, extend, +=, insert, remove, pop, clear, reverse, int-index __setitem__/__delitem__) and MutableSet (add, discard, remove, clear, the four *_update methods and |= &= ^= -=) is proved: the builtin's effect on the contents, and a change event (ghost counter of changed() calls) whenever the contents may have changed -- also when pop() returns a value equal to the default. Bounded complement: for every mutating method/operator obtained by reflection from list/dict/set: contents changed => changed() was called, contents equal the builtin's, parent flagged and stored value updated on SQLite.",
                note="Mutable.changed() assumed (ghost counter); update(**kw), sort(**kw), __imul__, MutableDict.__ior__, slice forms, coerce, pickling and MutableComposite bounded only; that a flagged parent survives every flush/pickle/merge path is only sampled"),
    "C55": B("the pure-Python and compiled builds of the _*_cy modules are each checked against the same contracts (OrderedSet, IdentitySet, immutabledict, processors, _distill_params, BaseRow, result, anon_map) in two fresh processes and every case compared across builds; a stale .so is reported as not evaluated. Bounded exploration.",
             "Cython is not installed: the .so cannot be rebuilt from an edited source; freshness decided from the source lines embedded in the generated .c", "DESIGN.md §5 C55"),
    "C11": B("postcondition of CursorResultMetaData key-map construction evaluated on real rows: lookup by column object / label / string returns the value at that expression's position or raises the ambiguity error, never another column's value; 15-expression pool x 9 statement shapes x 3 label styles x label_length, SQLite and a stub cursor for 5 dialects, second execution through the compiled cache. Bounded exploration.",
             "assumed DBAPI contract: columns arrive in SELECT-list order; other backends' naming via the stub cursor only", "DESIGN.md §5 C11"),
    "C12": B("generator contract of SQLCompiler._deliver_insertmanyvalues_batches (concatenation of batches == parameters, batch sizes within limits, batch numbers count up) on 10 dialect/paramstyle objects, sentinel re-ordering against permuted RETURNING rows, and SQLite execution. Bounded exploration.",
             "the server inserts what the statement says", "DESIGN.md §5 C12"),
    "C17": B("calling the user function directly is the spec function: after every invocation in every sequence <= 3 (quick) / 5 (thorough) over 19 lambda shapes sharing the code-object / closure / compiled caches, SQL, parameters sent to the DBAPI and rows equal those of the directly built statement. Bounded exploration.",
             "bytecode analysis is CPython-3.12 specific", "DESIGN.md §5 C17"),
    "C51": B("inverse-pair contracts view(loads(dumps(x))) == view(x) with per-type abstraction functions for InstanceState (44 states x protocols 2-5, and __setstate__(__getstate__) without pickle), rows, frozen results, MetaData, loader options, ext.serializer statements. Bounded exploration.",
             "pickle itself; 'executes to the same results' is outside", "DESIGN.md §5 C51"),
    "C02": B("the uncached compilation is the spec function: for every state of the compiled cache (disabled / cold / warm / sibling pairs / 3-permutations / LRU eviction) _compile_w_cache yields the SQL text, construct_params, positional tuples and bind types of a fresh compilation, and equal cache keys imply equal fresh SQL, over a depth-2 statement corpus plus mechanical near-collision variants (12k statements, 6 dialects). Bounded exploration.",
             "result rows (backend) are outside; SQL text + parameters + types is the observation", "DESIGN.md §5 C02"),
    "C03": B("frame condition on every @_generative method found by AST scan: snapshot(old(self)) == snapshot(self) (compiled SQL, params, cache key on 6 dialects) after every call in chains <= 2 (quick) / 3 (thorough), plus copy/_clone/pickle; compilation deterministic. Bounded exploration.",
             "compile-string equality is the observation; execution outside", "DESIGN.md §5 C03"),
    "C04": B("postconditions of SQLCompiler._process_positional/_process_numeric/bindparam_string/_init_compiled: literalising through qmark/format/numeric/numeric_dollar/pyformat/named equals the literal_binds ground truth and the named rendering; positiontup ghost relation; 15 shapes x slot pairs x 8 bind names x 3 dialect families. Bounded exploration.",
             "regex engine and %-formatting are CPython's; drivers outside", "DESIGN.md §5 C04"),
    "C16": B("postcondition of _render_schema_translates / _with_schema_translate: translated rendering equals the rendering of the construct built with the target schemas, for 17 worlds x map sequences over one cache x 24 statements + 13 DDL x 6 dialects. Bounded exploration.",
             "execution on real schemas outside", "DESIGN.md §5 C16"),
    "C22": B("exceptional postcondition of compile(): raises subset-of {CompileError, UnsupportedCompilationError, InvalidRequestError, ArgumentError}, over the statement corpus (depth 2) + ~3.3k compositions x 9 dialect variants x {plain, literal_binds, render_postcompile}. Bounded exploration of a finite catalogue.",
             "'well-formed' = accepted by the constructors in the corpus generator", "DESIGN.md §5 C22"),
    "_C10_bounded_only": B("list-model ghost for Result/ScalarResult/MappingResult/FrozenResult/MergedResult/ChunkedIteratorResult: every public method's result compared with the model over all operation sequences <= 3 (quick) / 4 (thorough) of 32 operations x 7 row sets x 6 sources (IteratorResult, sqlite CursorResult default / stream_results+max_row_buffer / yield_per, chunked). Bounded exploration; the buffered fetch strategies' proof kernel is planned (DESIGN §5 C10).",
             "assumed DBAPI cursor contract; cursor.fetchmany(0) is driver-defined and excluded", "DESIGN.md §5 C10"),
    "_C21_bounded_only": B("run-time contract on _truncated_identifier / _truncate_and_render_maxlen_name / truncate_and_render_index+constraint_name: rendered length <= the dialect's limit for that kind of name, deterministic across compilations, unique within a statement; 7 dialect families x max_identifier_length values x 11 naming templates x name lengths around each limit. Bounded exploration.",
             "md5 and %-templating are CPython's", "DESIGN.md §5 C21"),
    "_C24_bounded_only": B("postcondition of Pool.connect() on a fake DBAPI with a ghost ledger: a handed-out connection has no open transaction and default isolation/autocommit unless reset_on_return=None; all histories <= 4 (quick) / 5 (thorough) x 4 pool classes x 3 reset_on_return settings. Bounded exploration.",
             "server-side session state on real backends and GC timing are outside", "DESIGN.md §5 C24", level="fault_enumeration"),
    "_C26_bounded_only": B("fault enumeration on a fake DBAPI: every pool history <= 5 (quick) / 6 (thorough) x a fault at every DBAPI call position (two faults for short histories) x 11 pool configurations; after all holders released: checkedout()==0, every ledger-open connection idle in the pool, nothing closed handed out, nothing predating an invalidation.",
             "weakref/GC timing; StaticPool/SingletonThreadPool with one holder only", "DESIGN.md §5 C26", level="fault_enumeration"),
    "_C28_bounded_only": B("ghost registry of listen/remove (insert/propagate/once/named) on a 3-class hierarchy with a late subclass and 2 instances; invocation sequence on dispatch == registry model, each once; all histories <= 3 (quick) / 4 (thorough) over 75 operations. Bounded exploration.",
             "concurrent exec-once and weakref clean-up of the registry not decided", "DESIGN.md §5 C28"),
    "_C36_bounded_only": B("History contract (documented conventions) evaluated after every mutation sequence <= 3 (quick) / 4 (thorough) on scalar / many-to-one / list / set / dict attributes x persistent / expired / transient, then flush. Bounded exploration.",
             "the database round trip uses SQLite", "DESIGN.md §5 C36"),
    "_C38_bounded_only": B("InstrumentedList/Set and KeyFuncDict vs the builtin executed side by side (contents, return value, exception type, exactly the right append/remove events): every index and slice (bounds -5..5, steps -3..3), every method and operator x operand catalogue. Bounded exploration; proof kernel for the list index/slice arithmetic planned.",
             "events compared as multisets; user __eq__ not modelled", "DESIGN.md §5 C38"),
    "_C50_bounded_only": B("OrderingList representation invariant position(self[i]) == ordering_func(i) after every operation sequence <= 3 (quick) / 4 (thorough) over 21 operations (bound and un-instrumented class), association proxies vs list/set/dict models, flush + reload. Bounded exploration.",
             "SQLite for the persisted order", "DESIGN.md §5 C50"),
    "C14": B("contract of sql/ddl.py::sort_tables_and_constraints evaluated on the real function for every FK graph on <= 3 (quick) / 4 (thorough) tables (0-2 constraints per ordered pair, named/unnamed, use_alter, 6 filter_fn variants, all input orders, explicit dependencies): tables are a permutation, every FK constraint is inline with its table or deferred, every inline FK's referred table comes earlier, use_alter/filtered constraints are deferred, cycles raise only when unbreakable; plus create_all/drop_all through mock engines (sqlite, postgresql) and on real SQLite with foreign_keys=ON. Bounded exploration (the function mixes tuple sets, exception attributes and generator arguments: outside the pyvc subset).",
             "backends enforcing existence are modelled by a small catalog; PostgreSQL/MariaDB servers outside", "DESIGN.md §5 C14"),
    "C31": B("run-time contract on Session.flush / UOWTransaction.execute: every flush of every operation sequence <= 2 (quick) / 3 (thorough) over 14 mappings on SQLite with immediate FK enforcement succeeds, and the recorded DML replayed on a shadow copy never leaves a dangling reference (parent before child, children before parent, association rows, self-referential order, post_update), and the database equals the object graph. Bounded exploration.",
             "SQLite stands for 'a backend'; the proof kernel planned in DESIGN §5 C31 (UOWTransaction.execute vs declared dependencies) is not built: dependency.py's edge declarations are only exercised, not proved", "DESIGN.md §5 C31"),
    "C20": B("inverse-pair contract make_url(u.render_as_string(hide_password=False)) == u on the real URL functions over ~3e5 URLs (all strings <= 3 of an adversarial alphabet per component, interacting pairs, hosts/ports table). Bounded exploration.",
             "urllib.parse quote/unquote and re are CPython's; canonical query forms only", "DESIGN.md §5 C20"),
    "_C23_bounded_only": B("ghost nested-transaction model evaluated after every step of every operation sequence <= 5 (quick) / 6 (thorough) over 20 Connection/Transaction operations on file-backed SQLite with an independent observer connection. Bounded exploration.",
             "SQLite (autocommit=False mode) stands for 'a backend'; PostgreSQL/MariaDB outside", "DESIGN.md §5 C23"),
    "_C27_bounded_only": B("fault enumeration on a fake DBAPI with a ghost ledger: a disconnect / ordinary error injected at every DBAPI call position of every history <= 4 (quick) / 5 (thorough) x 4 handle_error listener modes; contract clauses on Connection._handle_dbapi_exception and the pool checked after every step.",
             "real drivers' is_disconnect classification is outside; fake DBAPI stands for the driver", "DESIGN.md §5 C27", level="fault_enumeration"),
})

NA_REASON_DB = "oracle is the joint behaviour of the ORM/unit of work with a live database over whole histories; no function-local contract carries it (DESIGN §5)"
NOT_APPLICABLE = {
    "C01": "equivalence of backend evaluation of two renderings; the oracle is each backend's expression grammar, not code under contract (DESIGN §5 C01)",
    "C07": "truth table is produced by the backend from rendered text; the in-repo evaluator of IN is covered under C43 (DESIGN §5 C07)",
    "C13": "whole-pipeline statement (crud._scan_cols + execution defaults) observed through the database (DESIGN §5 C13)",
    "C15": "round trip through a database catalog; the server is the middle of the inverse pair (DESIGN §5 C15)",
    "C18": "LIMIT/OFFSET emulations build SQL whose meaning is the backend's; no server for MSSQL/Oracle (DESIGN §5 C18)",
    "C29": "cancellation at await points / greenlet switching are schedule quantifiers no contract here speaks about (DESIGN §5 C29)",
    "C30": NA_REASON_DB, "C32": NA_REASON_DB, "C33": NA_REASON_DB, "C39": NA_REASON_DB, "C40": NA_REASON_DB, "C41": NA_REASON_DB,
    "C42": NA_REASON_DB, "C44": NA_REASON_DB, "C45": NA_REASON_DB, "C46": NA_REASON_DB, "C47": NA_REASON_DB, "C53": NA_REASON_DB,
    "C56": "semantics of ON CONFLICT / ON DUPLICATE KEY are the backend's; the in-repo part is string rendering (DESIGN §5 C56)",
}
NOT_BUILT = "check not built yet in this round (planned in DESIGN §5/§8); not claimed until it runs clean on the unchanged tree"


def main():
    props = [json.loads(l)["id"] for l in open(os.path.join(ROOT, "properties.jsonl"))]
    checks = []
    for k in [k for k in CHECKS if k.startswith("_")]:
        del CHECKS[k]
    for pid in props:
        if pid in CHECKS:
            c = CHECKS[pid]
            cat = c["level"]
            checks.append(dict(
                property_id=pid,
                quick_cmd=f"./vcheck {pid} --tier quick",
                thorough_cmd=f"./vcheck {pid} --tier thorough",
                evidence_file=f"evidence/{pid}.json",
                replay_cmd_template=f"./vcheck {pid} --replay {{path}}",
                engine="pyvc" if cat == "proof" else "rtc",
                level_claimed=dict(category=cat, text=c["text"], design_ref=c["design"]),
                level_note=c["note"],
                technique=c["technique"]))
    na = []
    for pid in props:
        if pid in CHECKS:
            continue
        na.append(dict(property_id=pid, reason=NOT_APPLICABLE.get(pid, NOT_BUILT)))
    man = dict(
        version=1,
        setup_cmd="./setup.sh",
        hooks=dict(guard="SQLALCHEMY_VERIF", enable="no hooks: contracts are sidecar files under /verif/contracts; nothing in /repo is instrumented",
                   baseline_off_cmd=BASELINE["cmd"].replace("--junitxml=<file>", "--junitxml=/tmp/baseline.junit.xml"), source_commits=[], add_only=True),
        engines=[dict(name="pyvc", path="pyvc/", serves_properties=[p for p, c in CHECKS.items() if c["level"] == "proof"],
                      kind_free_text="VC generator: Python AST of the real function + sidecar contract -> SMT obligations (z3, cvc5)"),
                 dict(name="rtc", path="rtc/", serves_properties=sorted(CHECKS),
                      kind_free_text="run-time evaluation of the same contract text on the real functions over exhaustive small scopes (bounded, never counted as proof); also replays counterexamples")],
        checks=checks,
        not_applicable=na,
        notes="Technique family: contract-based deductive verification of the real code. See DESIGN.md. Exit codes: 0 held, 1 VIOLATION, 2 undecided, 3 checker error.")
    json.dump(man, open(os.path.join(ROOT, "MANIFEST.json"), "w"), indent=1)
    try:
        import jsonschema
        jsonschema.validate(man, json.load(open("/root/.vp/MANIFEST.schema.json")))
        print("MANIFEST.json valid;", len(checks), "checks,", len(na), "not_applicable")
    except ImportError:
        print("written (jsonschema not available to validate)")


if __name__ == "__main__":
    main()
