#!/usr/bin/env python3
"""./tools/selftest.py  — deliberately broken copies (DESIGN §2.7): every mutant must make at least one obligation of the named
function fail (sat / unknown); the unchanged copy must verify.  Scratch copies live in a temporary directory."""
import importlib
import json
import os
import shutil
import sys
import tempfile

ROOT = os.path.dirname(os.path.dirname(os.path.abspath(__file__)))
sys.path.insert(0, ROOT)
from pyvc.contract import FUNCS, REPO_LIB  # noqa: E402
from pyvc.verify import verify  # noqa: E402


def main():
    muts = json.load(open(os.path.join(ROOT, "selftest", "mutants.json")))
    only = sys.argv[1] if len(sys.argv) > 1 else None
    bad = 0
    if only is None:
        # one subprocess per contract module: contract modules declare heap fields globally, and two modules that are never loaded
        # by the same check may use one field name at two types (e.g. the ghost `_g_mine`)
        import subprocess
        start = int(os.environ.get("SELFTEST_FROM", "0"))
        mods = []
        for m in muts[start:]:
            if m["module"] not in mods:
                mods.append(m["module"])
        for mod in mods:
            bad += subprocess.call([sys.executable, os.path.abspath(__file__), mod], env=dict(os.environ, SELFTEST_MODULE="1")) != 0
        return 1 if bad else 0
    start = int(os.environ.get("SELFTEST_FROM", "0"))   # resume an interrupted run at this index
    for idx, m in enumerate(muts):
        if idx < start:
            continue
        if os.environ.get("SELFTEST_MODULE"):
            if only != m["module"]:
                continue
        elif only and only not in m["fn"] and only != m["module"]:
            continue
        importlib.import_module("contracts." + m["module"])
        key = [k for k in FUNCS if (k.endswith("::" + m["fn"]) or k.endswith("." + m["fn"])) and FUNCS[k].proof][0]
        c = FUNCS[key]
        src = open(os.path.join(REPO_LIB, c.path)).read()
        if src.count(m["old"]) < 1:
            print(f"STALE   {m['fn']}: pattern not found in the current source"); bad += 1; continue
        root = tempfile.mkdtemp(prefix="pyvc-selftest-")
        try:
            os.makedirs(os.path.dirname(os.path.join(root, c.path)), exist_ok=True)
            open(os.path.join(root, c.path), "w").write(src.replace(m["old"], m["new"], 1))
            r = verify(key, source_root=root)
        finally:
            shutil.rmtree(root)
        failed = [o for o in r.obligations if o["result"] != "unsat"]
        if r.error and m.get("expect") == "not-decided":
            # the change leaves the verified subset (e.g. a call no longer has the form its assumed contract describes): the
            # proof refuses to decide (exit 3 / bounded search in the check) rather than silently passing
            print(f"REFUSED {m['fn']}: {r.error[1][:90]}  ({m['why']})")
        elif r.error:
            print(f"ERROR   {m['fn']}: {r.error}  ({m['why']})"); bad += 1
        elif failed:
            kinds = sorted({o['name'].split('/')[-1].split('@')[0] for o in failed})
            print(f"KILLED  {m['fn']}: {len(failed)} obligation(s) fail: {kinds[:3]}  ({m['why']})")
        else:
            print(f"SURVIVED {m['fn']}: all {len(r.obligations)} obligations still discharge  ({m['why']})"); bad += 1
    return 1 if bad else 0


if __name__ == "__main__":
    sys.exit(main())
