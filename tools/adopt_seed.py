"""usage: adopt_seed.py <src dir> <ID> <round> <status> <detail>  -- store a confirmed seeded change as seeded/<ID>-<round>/ and record the check result"""
import json, os, shutil, sys
src, pid, rnd, status, detail = sys.argv[1:6]
root = os.path.join(os.path.dirname(os.path.abspath(__file__)), "..", "seeded")
name = f"{pid}-{rnd}"
dst = os.path.join(root, name)
os.makedirs(dst, exist_ok=True)
for f in ("patch.diff", "demo.py"):
    shutil.copy(os.path.join(src, f), os.path.join(dst, f))
mp = os.path.join(src, "meta.json")
meta = json.load(open(mp)) if os.path.exists(mp) else {"property": pid}
meta.setdefault("property", pid)
meta["confirmed_by_me"] = ("patch applied to a scratch worktree of /repo HEAD; demo exits 0 on /repo and non-zero on the patched tree "
                           "(tools/try_seed.sh); the author's test runs are listed under tests_run")
meta["check_result"] = status
meta["check_detail"] = detail
json.dump(meta, open(os.path.join(dst, "meta.json"), "w"), indent=1)
rp = os.path.join(root, "RESULTS.json")
res = json.load(open(rp))
res[name] = dict(status=status, detail=detail)
json.dump(res, open(rp, "w"), indent=1, sort_keys=True)
print("adopted", name)
