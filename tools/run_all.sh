#!/bin/sh
# run every registered quick check on /repo, one after the other; prints id, exit code, wall seconds
cd "$(dirname "$0")/.."
for id in $(python3 -c "import json; print(' '.join(c['property_id'] for c in json.load(open('MANIFEST.json'))['checks']))"); do
  s=$(date +%s); ./vcheck $id --tier ${1:-quick} > /tmp/runall-$id.log 2>&1; e=$?; t=$(( $(date +%s) - s ))
  echo "$id exit=$e ${t}s $(grep -c KNOWN-FINDING /tmp/runall-$id.log) known $(grep -E 'VIOLATION|ERROR|UNDECIDED' /tmp/runall-$id.log | head -2 | cut -c1-150)"
done
