#!/usr/bin/env python3
"""Regenerate the proof-level table of DESIGN.md §11.1 (between the PROOF-TABLE markers) from evidence/*.json."""
import glob, json, os, re
ROOT = os.path.dirname(os.path.dirname(os.path.abspath(__file__)))
rows = []
for f in sorted(glob.glob(os.path.join(ROOT, "evidence", "C*.json"))):
    d = json.load(open(f))
    cov = d.get("coverage", {})
    fns = cov.get("functions_under_contract")
    if d.get("level") != "proof" or not fns:
        continue
    names = []
    for e in fns:
        n = e["function"].split("::")[1]
        names.append(f"`{n}`")
    extra = cov.get("functions_verified_in_thorough_tier_only") or []
    t = ", ".join(names)
    if extra:
        t += " (thorough tier only: " + ", ".join("`" + k.split("::")[1] + "`" for k in extra) + ")"
    rows.append(f"| {d['property_id']} | {t} | {cov.get('obligations')} / {cov.get('discharged')} ({d.get('tier')}) |")
table = "| ID | functions under contract (every one re-read from /repo and verified on every run) | obligations generated / discharged |\n|---|---|---|\n" + "\n".join(rows)
p = os.path.join(ROOT, "DESIGN.md")
s = open(p).read()
s2 = re.sub(r"(<!-- PROOF-TABLE-BEGIN -->\n)(?:.*?\n)?(<!-- PROOF-TABLE-END -->)", lambda m: m.group(1) + table + "\n" + m.group(2), s, flags=re.S)
assert table in s2, "PROOF-TABLE markers not found in DESIGN.md"
open(p, "w").write(s2)
print(table)
