#!/bin/sh
# usage: tools/try_seed.sh <dir with patch.diff/demo.py/meta.json> [property id]   -- confirm a seeded change and run the check against it in a scratch worktree
D="$1"; ID="${2:-$(basename $D)}"
WT=/tmp/wt-try-$ID-$$
git -C /repo worktree add --detach $WT HEAD >/dev/null 2>&1 || { echo "worktree failed"; exit 3; }
cd $WT && git apply "$D/patch.diff" || { echo "patch does not apply"; git -C /repo worktree remove --force $WT; exit 3; }
echo "== demo on unmodified tree:"; (cd /tmp && PYTHONPATH=/repo/lib timeout 300 /venv/bin/python "$D/demo.py" >/dev/null 2>&1; echo "exit=$?")
echo "== demo on modified tree:"; (cd /tmp && PYTHONPATH=$WT/lib timeout 300 /venv/bin/python "$D/demo.py" 2>&1 | tail -2; echo "exit=$?")
echo "== check $ID on modified tree:"
cd /verif && VERIF_REPO=$WT timeout 1500 ./vcheck $ID 2>&1 | grep -v "^KNOWN-FINDING" | cut -c1-250 | tail -5
echo "check-exit=$?"
git -C /repo worktree remove --force $WT
