"""Discharge obligations: one SMT query per obligation, in a process pool.

prove:   z3 (python API, fresh context, 2 tactics/timeouts)  ->  cvc5 CLI on z3's unknowns
refute:  z3 `sat` on quantifier-light goals, else cvc5 --finite-model-find --mbqi
Results: 'unsat' (discharged) | 'sat' (refuted, model text) | 'unknown'
"""
import os
import shutil
import subprocess
import tempfile
import time
from concurrent.futures import ProcessPoolExecutor, as_completed

Z3_T1 = int(os.environ.get("PYVC_Z3_T1", "4000"))
Z3_T2 = int(os.environ.get("PYVC_Z3_T2", "30000"))
CVC5_T = int(os.environ.get("PYVC_CVC5_T", "20000"))
CVC5 = "/usr/bin/cvc5"


def to_smt2(hyps, goal):
    import z3
    s = z3.Solver()
    for h in hyps:
        s.add(h)
    s.add(z3.Not(goal))
    return s.to_smt2()


Z3_BIN = shutil.which("z3-new") or "/usr/bin/z3"
Z3_MEM_MB = int(os.environ.get("PYVC_Z3_MEM", "3000"))


def _z3_check(smt2, timeout_ms, want_model=False):
    """one z3 process per query (native CLI): a query that ignores its soft timeout or explodes in memory is killed by the OS-level
    timeout / z3's -memory limit instead of wedging a pool worker"""
    text = smt2
    if want_model:
        text = "(set-option :produce-models true)\n" + text.replace("(check-sat)", "(check-sat)\n(get-model)")
    with tempfile.NamedTemporaryFile("w", suffix=".smt2", delete=False) as f:
        f.write(text)
        name = f.name
    t = time.time()
    out = ""
    try:
        p = subprocess.run([Z3_BIN, f"-T:{max(1, timeout_ms // 1000)}", f"-memory:{Z3_MEM_MB}", name], capture_output=True, text=True,
                           timeout=timeout_ms / 1000 + 15)
        out = p.stdout
    except subprocess.TimeoutExpired:
        out = "timeout"
    finally:
        os.unlink(name)
    ms = int((time.time() - t) * 1000)
    first = out.strip().split("\n")[0] if out.strip() else "unknown"
    if first == "unsat":
        return "unsat", ms, None, ""
    if first == "sat":
        return "sat", ms, out[:6000], ""
    return "unknown", ms, None, first[:200]


def _cvc5(smt2, args, timeout_ms):
    text = smt2
    if "(lambda" in text:
        return "unknown", 0, None, "lambda terms not sent to cvc5"
    text = "(set-logic ALL)\n(set-option :produce-models true)\n" + text.replace("(check-sat)", "(check-sat)\n(get-model)")
    with tempfile.NamedTemporaryFile("w", suffix=".smt2", delete=False) as f:
        f.write(text)
        name = f.name
    t = time.time()
    try:
        p = subprocess.run([CVC5, f"--tlimit={timeout_ms}"] + args + [name], capture_output=True, text=True, timeout=timeout_ms / 1000 + 10)
        out = p.stdout
    except subprocess.TimeoutExpired:
        out = "timeout"
    finally:
        os.unlink(name)
    ms = int((time.time() - t) * 1000)
    first = out.strip().split("\n")[0] if out.strip() else "unknown"
    if first not in ("sat", "unsat"):
        return "unknown", ms, None, first[:200]
    return first, ms, (out if first == "sat" else None), ""


def solve_one(job):
    """job = (name, smt2, quantified:bool) -> dict"""
    name, smt2, refute = job
    log = []
    r, ms, model, why = _z3_check(smt2, Z3_T1, want_model=True)
    log.append(("z3", r, ms))
    total = ms
    if r == "unsat":
        return dict(name=name, result="unsat", backend="z3", ms=total, log=log)
    if r == "sat":
        return dict(name=name, result="sat", backend="z3", ms=total, model=model, log=log)
    # unknown: try cvc5 both ways, then z3 longer
    r2, ms2, model2, why2 = _cvc5(smt2, [], min(CVC5_T, 10000))
    log.append(("cvc5", r2, ms2))
    total += ms2
    if r2 == "unsat":
        return dict(name=name, result="unsat", backend="cvc5", ms=total, log=log)
    r3, ms3, model3, why3 = _cvc5(smt2, ["--finite-model-find", "--mbqi"], CVC5_T)
    log.append(("cvc5-fmf", r3, ms3))
    total += ms3
    if r3 == "sat":
        return dict(name=name, result="sat", backend="cvc5-fmf", ms=total, model=model3, log=log)
    if r3 == "unsat":
        return dict(name=name, result="unsat", backend="cvc5-fmf", ms=total, log=log)
    r4, ms4, model4, why4 = _z3_check(smt2, Z3_T2, want_model=True)
    log.append(("z3-long", r4, ms4))
    total += ms4
    if r4 == "unsat":
        return dict(name=name, result="unsat", backend="z3", ms=total, log=log)
    if r4 == "sat":
        return dict(name=name, result="sat", backend="z3", ms=total, model=model4, log=log)
    return dict(name=name, result="unknown", backend="-", ms=total, log=log, why=f"{why}|{why2}|{why3}|{why4}")


def feasible_one(job):
    """is the hypothesis set (path condition) refutable?  'unsat' => infeasible path"""
    name, smt2 = job
    r, ms, _, _ = _z3_check(smt2, 1000)
    return name, r, ms


def run_jobs(jobs, fn=solve_one, workers=None):
    workers = workers or min(16, os.cpu_count() or 4)
    out = {}
    if not jobs:
        return out
    with ProcessPoolExecutor(max_workers=workers) as ex:
        futs = {ex.submit(fn, j): j[0] for j in jobs}
        for f in as_completed(futs):
            res = f.result()
            if isinstance(res, dict):
                out[res["name"]] = res
            else:
                out[res[0]] = res
    return out


def _mixed(job):
    if job[0] == "feas":
        return feasible_one(job[1:])
    return solve_one(job[1:])


def run_mixed(feas_jobs, jobs, workers=None):
    """one pool for feasibility queries and obligations.  Every solver call is its own OS process with a hard timeout, so plain
    threads suffice here."""
    from concurrent.futures import ThreadPoolExecutor
    workers = workers or min(16, os.cpu_count() or 4)
    out = {}
    tagged = [("solve",) + tuple(j) for j in jobs] + [("feas",) + tuple(j) for j in feas_jobs]
    if not tagged:
        return out
    with ThreadPoolExecutor(max_workers=workers) as ex:
        for t, res in zip(tagged, ex.map(_mixed_safe, tagged)):
            if isinstance(res, dict):
                out[res["name"]] = res
            else:
                out[res[0]] = res
    return out


def _mixed_safe(t):
    try:
        return _mixed(t)
    except Exception as e:      # never a verdict
        if t[0] == "feas":
            return (t[1], "unknown", 0)
        return dict(name=t[1], result="unknown", backend="-", ms=0, log=[], why=f"solver driver: {type(e).__name__}: {e}")
