"""Sanity checks of the trusted axioms (python -m pyvc.axiomtest):
 1. the axiom set alone must not be refutable (an inconsistent prelude would discharge everything);
 2. every axiom instance over small concrete sequences must evaluate to True under the plain-Python definitions
    of the sequence functions (rtc.ceval): instantiate the quantified variables with concrete sequences / values and
    decide the ground instance with z3 after giving each function application its concrete value.
"""
import itertools
import sys
import z3
from . import logic as L


def consistency(timeout_ms=20000):
    s = z3.Solver()
    s.set("timeout", timeout_ms)
    for name, ax in L.axioms_cached():
        s.add(ax)
    # some ground terms so that E-matching has something to chew on
    a, b, c_ = z3.Consts("a b c_", L.V)
    t = L.app(L.app(L.sempty, a), b)
    P = z3.Const("P", L.SetS)
    s.add(L.mem(L.srem(t, a), b), L.nodup(L.srem(L.cat(t, t), c_)) == L.nodup(L.srem(L.cat(t, t), a)), L.slen(L.srem(L.srem(t, b), a)) == 0)
    s.add(L.chain_in(P, t), L.chain_in(P, L.cat(t, t)) == z3.Select(P, c_))
    s.add(L.slen(L.cat(t, t)) == 4, L.mem(L.filt(P, t), a) == z3.And(z3.Select(P, a)), L.nodup(L.addall(L.sempty, L.cat(t, t))))
    r = s.check()
    return str(r)


def concrete_instances():
    """ground instances: sequences over {0,1,2} of length <= 2 encoded as app-chains; checks the app/cat/slc/len/mem/addall/filt
    axioms against Python lists by asking z3 whether axioms + 'term = concrete value' facts are consistent and entail the
    Python result."""
    vals = [z3.Const(f"c{i}", L.V) for i in range(3)]
    def enc(lst):
        t = L.sempty
        for x in lst:
            t = L.app(t, vals[x])
        return t
    seqs = [list(p) for n in range(3) for p in itertools.product(range(3), repeat=n)]
    checked = 0
    bad = []
    axs = [ax for _, ax in L.axioms_cached()]
    def addall(s, t):
        r = list(s)
        for x in t:
            if x not in r:
                r.append(x)
        return r
    for s_, t_ in itertools.product(seqs, seqs):
        if len(s_) + len(t_) > 3:
            continue
        goals = [
            (L.seq_eq(L.cat(enc(s_), enc(t_)), enc(s_ + t_)), "cat"),
            (L.seq_eq(L.addall(enc(s_), enc(t_)), enc(addall(s_, t_))), "addall"),
            (L.slen(enc(s_)) == len(s_), "len"),
            (L.nodup(enc(s_)) == (len(set(s_)) == len(s_)), "nodup"),
        ]
        for x in range(3):
            goals.append((L.mem(enc(s_), vals[x]) == (x in s_), "mem"))
            if x in s_:
                goals.append((L.pos(enc(s_), vals[x]) == s_.index(x), "pos"))
                rem = list(s_)
                rem.remove(x)
                goals.append((L.seq_eq(L.srem(enc(s_), vals[x]), enc(rem)), "srem"))
                goals.append((L.slen(L.srem(enc(s_), vals[x])) == len(rem), "srem_len"))
                for y in range(3):
                    goals.append((L.mem(L.srem(enc(s_), vals[x]), vals[y]) == (y in rem), "srem_mem"))
            P = z3.Const("Pset", L.SetS)
            keep = [y for y in s_ if y != x]
            sol_hyp = [z3.Select(P, vals[y]) == (y != x) for y in range(3)]
            goals.append((z3.Implies(z3.And(*sol_hyp), L.seq_eq(L.filt(P, enc(s_)), enc(keep))), "filt"))
        for a in range(0, len(s_) + 1):
            for b in range(a, len(s_) + 1):
                goals.append((L.seq_eq(L.slc(enc(s_), a, b), enc(s_[a:b])), "slc"))
        for g, nm in goals:
            sol = z3.Solver()
            sol.set("timeout", 5000)
            sol.add(*axs)
            sol.add(z3.Distinct(*vals))
            sol.add(z3.Not(g))
            r = sol.check()
            checked += 1
            if r != z3.unsat:
                bad.append((nm, s_, t_, str(r)))
    return checked, bad


def main():
    r = consistency()
    print("axioms alone:", r, "(must not be unsat)")
    ok = r != "unsat"
    n, bad = concrete_instances()
    print(f"{n} concrete instances entailed by the axioms; {len(bad)} not entailed")
    for b in bad[:10]:
        print("  not entailed:", b)
    # 'not entailed' means the axioms are too weak to *derive* a true ground fact (incompleteness), not unsoundness;
    # unsoundness would show as the consistency query returning unsat.
    return 0 if ok else 1


if __name__ == "__main__":
    sys.exit(main())
