"""Contract records (sidecar; never written into /repo).  See DESIGN.md §2.1.

A contract names a real function by file (relative to /repo/lib/sqlalchemy) and qualified
name; every clause is a Python expression (a string) that both the symbolic evaluator
(pyvc.engine) and the concrete evaluator (rtc.ceval) understand.
"""
import ast

import os

REPO_LIB = os.environ.get("VERIF_REPO", "/repo") + "/lib/sqlalchemy"

FUNCS = {}     # key -> Fn
CLASSES = {}   # class name -> Cls


class Cls:
    def __init__(self, name, fields=None, rep=None, isa=None, bases=(), view=None, methods=None, truth=None, class_defaults=None):
        self.name = name
        self.fields = fields or {}       # field -> type string ('v','int','bool','list','set','dict','deque','obj:Name','fn')
        self.rep = rep or []             # representation invariant clauses over `self`
        self.isa = isa                   # 'set' / 'list' / 'dict' when the class subclasses a builtin container
        self.bases = tuple(bases)
        self.view = view
        self.methods = methods or {}     # method name -> Fn key
        self.class_defaults = class_defaults or {}   # attr -> python constant defined on the class: `del obj.attr` falls back to it
        self.truth = truth               # spec expression over `self` giving bool(self) (classes with __len__/__bool__)


class Fn:
    def __init__(self, key, **kw):
        self.key = key                               # "path.py::Qual.name"
        self.path, self.qualname = key.split("::")
        self.qualname = self.qualname.split("#")[0]      # "file::qual#tag": a second contract for the same function
        self.props = kw.pop("props", [])
        self.cls = kw.pop("cls", None)               # class of `self`
        self.types = kw.pop("types", {})             # name -> type string (params, free variables)
        self.consts = kw.pop("consts", {})           # global/free names that are sentinels or class names
        self.requires = kw.pop("requires", [])
        self.ensures = kw.pop("ensures", [])
        self.raises = kw.pop("raises", {})           # exc class -> condition (iff, over the pre-state)
        self.may_raise = kw.pop("may_raise", {})     # exc class -> condition (only-if)
        self.exc_ensures = kw.pop("exc_ensures", {}) # exc class -> clauses over the state (locals) at the raise
        self.modifies = kw.pop("modifies", [])       # frame: expressions naming locations
        self.invariant = kw.pop("invariant", {})     # loop ordinal -> [clauses]
        self.loop_modifies = kw.pop("loop_modifies", {})
        self.decreases = kw.pop("decreases", {})
        self.yields = kw.pop("yields", [])           # clauses asserted at each yield (over `yielded`, `out`)
        self.callees = kw.pop("callees", {})         # source text of callee expr -> Fn key | 'pure:<name>'
        self.returns = kw.pop("returns", "v")        # type of result
        self.fresh_result = kw.pop("fresh_result", False)
        self.ghost = kw.pop("ghost", {})
        self.assume_rep = kw.pop("assume_rep", True)
        self.check_rep = kw.pop("check_rep", True)
        self.variants = kw.pop("variants", None)     # list of dict(types=..., requires=...) case splits
        self.harness = kw.pop("harness", None)       # name of rtc harness for concrete replay
        self.notes = kw.pop("notes", "")
        self.lemmas = kw.pop("lemmas", [])
        self.hints = kw.pop("hints", {})
        self.expect_paths = kw.pop("expect_paths", None)
        self.proof = kw.pop("proof", True)           # False: contract evaluated concretely only (bounded stand-in)
        self.c_ensures = kw.pop("c_ensures", [])     # clauses evaluated only concretely (use spec functions without a logical definition)
        self.c_raises = kw.pop("c_raises", {})
        self.monitor = kw.pop("monitor", None)       # dict(havoc=[locations], inv=[clauses], locks=[texts], calls=[callee texts]): interference model
        self.ghost_after = kw.pop("ghost_after", {}) # source text of a statement -> ghost statements executed right after it
        self.ghost_call = kw.pop("ghost_call", {})   # callee text -> ghost statements executed atomically with the callee's effect (`_r` = result)
        self.s_ensures = kw.pop("s_ensures", [])     # clauses checked only symbolically (three-state clauses using after(...))
        self.abstract = kw.pop("abstract", False)    # contract only (callee not verified: listed as assumption)
        self.params = kw.pop("params", None)         # for abstract contracts: parameter names
        self.tier = kw.pop("tier", "quick")          # "thorough": the function is verified in the thorough tier only (many paths)
        if kw:
            raise TypeError(f"unknown contract keys {list(kw)} for {key}")


def fn(key, **kw):
    f = Fn(key, **kw)
    FUNCS[key] = f
    return f


def cls(name, **kw):
    c = Cls(name, **kw)
    CLASSES[name] = c
    return c


def find_function(path, qualname, root=REPO_LIB):
    """Locate the FunctionDef (or Lambda) for a lexical qualified name in the *current* source.
    Returns (node, source_segment, full_source).  Nested defs are found inside if/try/with arms and
    inside other function bodies.  `if cython.compiled:` arms: the else (pure Python) arm wins unless
    the qualname component is suffixed '@compiled'."""
    full = root + "/" + path
    src = open(full).read()
    tree = ast.parse(src)
    node = tree
    for part in qualname.split("."):
        want_compiled = part.endswith("@compiled")
        part = part.replace("@compiled", "")
        found = _find_in(node, part)
        if found is None:
            raise LookupError(f"{path}::{qualname}: component {part!r} not found")
        node = found
    return node, ast.get_source_segment(src, node), src


def _find_in(node, name):
    stack = list(getattr(node, "body", []))
    while stack:
        n = stack.pop(0)
        if isinstance(n, (ast.FunctionDef, ast.ClassDef, ast.AsyncFunctionDef)) and n.name == name:
            if any(ast.unparse(d).split(".")[-1] == "overload" for d in getattr(n, "decorator_list", [])):
                continue     # typing stubs
            return n
        if isinstance(n, ast.If):
            # `if cython.compiled:` -> prefer the pure arm
            t = ast.unparse(n.test)
            if t == "cython.compiled":
                stack = list(n.orelse) + stack
            elif t == "not cython.compiled":
                stack = list(n.body) + stack
            elif t in ("TYPE_CHECKING", "typing.TYPE_CHECKING"):
                stack = list(n.orelse) + stack      # the typing-only arm never runs
            elif t in ("not TYPE_CHECKING", "not typing.TYPE_CHECKING"):
                stack = list(n.body) + stack
            else:
                stack = list(n.body) + list(n.orelse) + stack
        elif isinstance(n, ast.Try):
            stack = list(n.body) + list(n.orelse) + list(n.finalbody) + [s for h in n.handlers for s in h.body] + stack
        elif isinstance(n, (ast.With, ast.For, ast.While)):
            stack = list(n.body) + stack
    return None
