"""Verify one function contract: generate obligations from the current source, discharge, report."""
import hashlib
import time
import z3
from .engine import Exec, OutOfSubset, ContractError
from .contract import FUNCS
from . import discharge as D


class FnReport:
    def __init__(self, key):
        self.key = key
        self.obligations = []     # dicts: name, result, backend, ms, kind, lineno, path, variant
        self.infeasible = []
        self.paths = 0
        self.assumptions = set()
        self.callees = set()
        self.sha = None
        self.error = None         # (kind, message) for exit 3
        self.wall = 0.0
        self.samples = []

    @property
    def failed(self):
        return [o for o in self.obligations if o["result"] == "sat"]

    @property
    def unknown(self):
        return [o for o in self.obligations if o["result"] == "unknown"]

    @property
    def discharged(self):
        return [o for o in self.obligations if o["result"] == "unsat"]


def _decl_names(e, acc):
    """names of uninterpreted function symbols in expression e"""
    todo = [e]
    seen = set()
    while todo:
        x = todo.pop()
        if x.get_id() in seen:
            continue
        seen.add(x.get_id())
        if z3.is_quantifier(x):
            todo.append(x.body())
            for i in range(x.num_patterns()):
                todo.append(x.pattern(i))
            continue
        if z3.is_app(x):
            d = x.decl()
            if d.kind() == z3.Z3_OP_UNINTERPRETED and x.num_args() > 0:
                acc.add(d.name())
            todo.extend(x.children())
    return acc


def _pattern_sets(ax):
    """for each quantifier in axiom ax: list of symbol sets of its patterns"""
    out = []
    todo = [ax]
    while todo:
        x = todo.pop()
        if z3.is_quantifier(x):
            for i in range(x.num_patterns()):
                out.append(_decl_names(x.pattern(i), set()))
            if x.num_patterns() == 0:
                out.append(set())
            todo.append(x.body())
        elif z3.is_app(x):
            todo.extend(x.children())
    return out


_AX_CACHE = {}


def relevant_axioms(axioms, formulas):
    """axioms whose trigger symbols all occur (transitively) in the query: the others cannot be instantiated
    by E-matching anyway, and leaving them out keeps finite-model finding (refutation) tractable"""
    syms = set()
    for f in formulas:
        _decl_names(f, syms)
    info = []
    for ax in axioms:
        k = ax.get_id()
        if k not in _AX_CACHE or not _AX_CACHE[k][0].eq(ax):
            _AX_CACHE[k] = (ax, _pattern_sets(ax), _decl_names(ax, set()))      # holds `ax`: its id cannot be reused
        info.append((ax,) + _AX_CACHE[k][1:])
    chosen = {}
    changed = True
    while changed:
        changed = False
        for ax, pats, allsyms in info:
            if ax.get_id() in chosen:
                continue
            if not pats or any(p <= syms for p in pats):
                chosen[ax.get_id()] = ax
                if not allsyms <= syms:
                    syms |= allsyms
                changed = True
    return [ax for ax, _, _ in info if ax.get_id() in chosen]


def generate(contract, source_root=None, extra_requires=None):
    """-> list of (variant_name, Exec) with obligations generated"""
    variants = contract.variants or [{}]
    import os
    if os.environ.get("VERIF_TIER", "quick") != "thorough":
        # case splits marked tier="thorough" are heavy (hundreds of paths): quick runs the others
        variants = [v for v in variants if v.get("tier") != "thorough"] or variants
    out = []
    for i, v in enumerate(variants):
        if extra_requires:
            v = dict(v, extra_requires=list(extra_requires))
        ex = Exec(contract, v, source_root=source_root)
        ex.run()
        out.append((v.get("name", f"v{i}") if contract.variants else "", ex))
    return out


def _prepare(key, source_root=None, keep_smt=False, extra_requires=None):
    """generate obligations for one contract -> (FnReport, jobs, feas_jobs, meta)"""
    c = FUNCS[key]
    rep = FnReport(key)
    rep.t0 = time.time()
    try:
        runs = generate(c, source_root, extra_requires)
    except (OutOfSubset, ContractError, LookupError) as e:
        rep.error = (type(e).__name__, str(e))
        return rep, [], [], {}
    jobs, feas_jobs, meta = [], [], {}
    for vname, ex in runs:
        rep.sha = hashlib.sha256(ex.segment.encode()).hexdigest()[:16]
        rep.paths += ex.paths
        rep.assumptions |= ex.assumptions
        rep.callees |= getattr(ex, "callees_used", set())
        gh = ex.global_hyps()
        seen_pc = {}
        for n, ob in enumerate(ex.obls):
            name = f"{key}|{vname + ':' if vname else ''}{ob.name}#{n}"
            rel = relevant_axioms(gh, ob.hyps + [ob.goal])
            smt = D.to_smt2(rel + ob.hyps, ob.goal)
            jobs.append((name, smt, True))
            pckey = tuple(h.get_id() for h in ob.hyps)
            if pckey not in seen_pc:
                seen_pc[pckey] = f"{key}|{vname}:pc{len(seen_pc)}"
                feas_jobs.append((seen_pc[pckey], D.to_smt2(relevant_axioms(gh, ob.hyps) + ob.hyps, z3.BoolVal(False))))
            meta[name] = dict(kind=ob.kind, lineno=ob.lineno, path=" ".join(ob.path), variant=vname, pc=seen_pc[pckey], smt=smt if keep_smt else None)
    return rep, jobs, feas_jobs, meta


def verify_many(keys, source_root=None, keep_smt=False, extra_requires=None):
    """verify several contracts with one solver pool.  extra_requires: {key: [clauses]} or None"""
    prepared = []
    all_jobs, all_feas = [], []
    for key in keys:
        er = (extra_requires or {}).get(key) if isinstance(extra_requires, dict) else extra_requires
        rep, jobs, feas_jobs, meta = _prepare(key, source_root, keep_smt, er)
        prepared.append((rep, jobs, meta))
        all_jobs += jobs
        all_feas += feas_jobs
    results = D.run_mixed(all_feas, all_jobs)
    out = []
    for rep, jobs, meta in prepared:
        for name, _, _ in jobs:
            r = results[name]
            m = meta[name]
            entry = dict(name=name.split("|", 1)[1], result=r["result"], backend=r["backend"], ms=r["ms"], kind=m["kind"], lineno=m["lineno"],
                         path=m["path"], variant=m["variant"])
            if r.get("model"):
                entry["model"] = r["model"][:4000]
            if r.get("why"):
                entry["why"] = r["why"]
            if m["smt"]:
                entry["smt"] = m["smt"]
            if results[m["pc"]][1] == "unsat":
                entry["infeasible"] = True
                rep.infeasible.append(entry)
            else:
                rep.obligations.append(entry)
        rep.wall = time.time() - rep.t0
        out.append(rep)
    return out


def verify(key, source_root=None, keep_smt=False, extra_requires=None):
    return verify_many([key], source_root, keep_smt, extra_requires)[0]
