"""Logical prelude of pyvc: the value model of DESIGN.md §2.2 as z3 declarations + axioms.

Everything here is *trusted encoding*: each axiom is meant to be true in the standard
model (V = Python values, PySeq = finite sequences of values).  `pyvc/axiomtest.py`
evaluates every axiom on small concrete sequences (selftest).
"""
from z3 import (DeclareSort, IntSort, BoolSort, Function, Const, Consts, Int, Ints, ForAll, Exists,
                Implies, And, Or, Not, If, ArraySort, MultiPattern, BoolVal, IntVal, K, Store, Select)

V = DeclareSort('V')            # universal Python value / reference
Sq = DeclareSort('PySeq')       # finite sequence of V  (NOT the solver's native Seq, see DESIGN A.2)
I = IntSort()
B = BoolSort()
SetS = ArraySort(V, B)          # mathematical set of values
MapS = ArraySort(V, V)

at = Function('at', Sq, I, V)
slen = Function('slen', Sq, I)
mem = Function('mem', Sq, V, B)
pos = Function('pos', Sq, V, I)          # first index of a member
nodup = Function('nodup', Sq, B)

sempty = Const('sempty', Sq)
app = Function('app', Sq, V, Sq)         # s ++ [x]
cat = Function('cat', Sq, Sq, Sq)        # s ++ t
slc = Function('slc', Sq, I, I, Sq)      # s[a:b] for 0<=a<=b<=len
upd = Function('upd', Sq, I, V, Sq)      # s with s[i] = x
rev = Function('rev', Sq, Sq)
sset = Function('sset', Sq, SetS)        # members as a set
filt = Function('filt', SetS, Sq, Sq)    # order preserving filter [x for x in s if P[x]]
fix = Function('fix', SetS, Sq, I, I)    # index map of filt into s
fjx = Function('fjx', SetS, Sq, I, I)    # inverse of the index map
addall = Function('addall', Sq, Sq, Sq)  # s ++ first occurrences of members of t not already present
cnt = Function('cnt', Sq, V, I)          # number of occurrences
srem = Function('srem', Sq, V, Sq)        # s without the first occurrence of x (List.erase)
chain_in = Function('chain_in', SetS, Sq, B)   # every element of the sequence is in the set
flat = Function('flat', Sq, Sq)           # concatenation of a sequence of (boxed) sequences
smap = Function('smap', MapS, Sq, Sq)     # [M[x] for x in s]
seqeq = Function('seqeq', Sq, Sq, B)     # sequence equality: as a hypothesis it yields term equality (sequences are extensional),
eqw = Function('eqw', Sq, Sq, I)         # as a goal it is refuted by a witness index where the two differ

# strings: only lengths, concatenation, slicing and hex(int) digits are modelled (DESIGN §2.2)
strlen = Function('strlen', V, I)
sconcat = Function('sconcat', V, V, V)
sslice = Function('sslice', V, I, I, V)      # s[a:b] for 0<=a<=b<=len
hexstr = Function('hexstr', I, V)            # hex(n)[2:]
unhex = Function('unhex', V, I)

None_ = Const('None_', V)
True_ = Const('True_', V)
False_ = Const('False_', V)
NotImpl_ = Const('NotImplemented_', V)

ibox = Function('ibox', I, V)
iunbox = Function('iunbox', V, I)
is_int = Function('v_is_int', V, B)
sbox = Function('sbox', Sq, V)           # tuple value
sunbox = Function('sunbox', V, Sq)
is_tup = Function('v_is_tup', V, B)
truthy = Function('truthy', V, B)
tyid = Function('tyid', V, I)            # class id
idof = Function('idof', V, I)            # id(x)
unid = Function('unid', I, V)
is_ref = Function('v_is_ref', V, B)        # heap object (not None/bool/int/tuple)

_sentinels = {}


def sentinel(name):
    """Distinct named constant of sort V (NO_VALUE, _EXPIRED_OBJECT, ...)."""
    if name not in _sentinels:
        _sentinels[name] = Const('S_' + name, V)
    return _sentinels[name]


def v_is_int_(x):
    return is_int(x)


def bbox(b):
    return If(b, True_, False_)


def axioms():
    s, t = Consts('s t', Sq)
    i, j, a, b = Ints('i j a b')
    x, y = Consts('x y', V)
    P, Q = Consts('P Q', SetS)
    ax = []

    def A(name, f):
        ax.append((name, f))

    A('len_nonneg', ForAll([s], slen(s) >= 0, patterns=[slen(s)]))
    A('at_mem', ForAll([s, i], Implies(And(0 <= i, i < slen(s)), And(mem(s, at(s, i)), pos(s, at(s, i)) <= i)),
                       patterns=[at(s, i)]))
    A('mem_pos', ForAll([s, x], Implies(mem(s, x), And(0 <= pos(s, x), pos(s, x) < slen(s), at(s, pos(s, x)) == x)),
                        patterns=[mem(s, x)]))
    A('nodup_def1', ForAll([s, i], Implies(And(nodup(s), 0 <= i, i < slen(s)), pos(s, at(s, i)) == i),
                           patterns=[MultiPattern(nodup(s), at(s, i))]))
    A('nodup_def2', ForAll([s], Or(nodup(s), Exists([i], And(0 <= i, i < slen(s), pos(s, at(s, i)) != i))), patterns=[nodup(s)]))
    A('seqeq_elim', ForAll([s, t], Implies(seqeq(s, t), s == t), patterns=[seqeq(s, t)]))
    A('seqeq_intro', ForAll([s, t], Or(seqeq(s, t), slen(s) != slen(t),
                                       And(0 <= eqw(s, t), eqw(s, t) < slen(s), at(s, eqw(s, t)) != at(t, eqw(s, t)))), patterns=[seqeq(s, t)]))
    A('empty', And(slen(sempty) == 0, ForAll([x], Not(mem(sempty, x)), patterns=[mem(sempty, x)])))
    A('len0_empty', ForAll([s], Implies(slen(s) == 0, s == sempty), patterns=[slen(s)]))
    # app
    A('app_len', ForAll([s, x], And(slen(app(s, x)) == slen(s) + 1, at(app(s, x), slen(s)) == x), patterns=[app(s, x)]))
    A('app_at', ForAll([s, x, i], Implies(And(0 <= i, i < slen(s)), at(app(s, x), i) == at(s, i)),
                       patterns=[at(app(s, x), i), MultiPattern(app(s, x), at(s, i))]))
    A('app_mem', ForAll([s, x, y], mem(app(s, x), y) == Or(mem(s, y), y == x), patterns=[mem(app(s, x), y), MultiPattern(app(s, x), mem(s, y))]))
    # cat
    A('cat_len', ForAll([s, t], slen(cat(s, t)) == slen(s) + slen(t), patterns=[cat(s, t)]))
    A('cat_at', ForAll([s, t, i], And(Implies(And(0 <= i, i < slen(s)), at(cat(s, t), i) == at(s, i)),
                                      Implies(And(slen(s) <= i, i < slen(s) + slen(t)), at(cat(s, t), i) == at(t, i - slen(s)))),
                       patterns=[at(cat(s, t), i)]))
    A('cat_at_l', ForAll([s, t, i], Implies(And(0 <= i, i < slen(s)), at(cat(s, t), i) == at(s, i)),
                         patterns=[MultiPattern(cat(s, t), at(s, i))]))
    A('cat_at_r', ForAll([s, t, i], Implies(And(0 <= i, i < slen(t)), at(cat(s, t), i + slen(s)) == at(t, i)),
                         patterns=[MultiPattern(cat(s, t), at(t, i))]))
    A('cat_mem', ForAll([s, t, y], mem(cat(s, t), y) == Or(mem(s, y), mem(t, y)), patterns=[mem(cat(s, t), y), MultiPattern(cat(s, t), mem(s, y)), MultiPattern(cat(s, t), mem(t, y))]))
    A('cat_snoc', ForAll([s, t, x], cat(s, app(t, x)) == app(cat(s, t), x), patterns=[cat(s, app(t, x))]))
    A('cat_empty', ForAll([s], And(cat(s, sempty) == s, cat(sempty, s) == s), patterns=[cat(s, sempty), cat(sempty, s)]))
    # slc (arguments already clamped by the engine: 0<=a<=b<=len)
    A('slc_len', ForAll([s, a, b], Implies(And(0 <= a, a <= b, b <= slen(s)), slen(slc(s, a, b)) == b - a), patterns=[slc(s, a, b)]))
    A('slc_at', ForAll([s, a, b, i], Implies(And(0 <= a, a <= b, b <= slen(s), 0 <= i, i < b - a), at(slc(s, a, b), i) == at(s, a + i)),
                       patterns=[at(slc(s, a, b), i)]))
    A('slc_at2', ForAll([s, a, b, i], Implies(And(0 <= a, a <= b, b <= slen(s), a <= i, i < b), at(slc(s, a, b), i - a) == at(s, i)),
                        patterns=[MultiPattern(slc(s, a, b), at(s, i))]))
    A('slc_mem', ForAll([s, a, b, y], Implies(And(0 <= a, a <= b, b <= slen(s), mem(slc(s, a, b), y)), mem(s, y)), patterns=[mem(slc(s, a, b), y)]))
    A('slc_full', ForAll([s], slc(s, 0, slen(s)) == s, patterns=[slc(s, 0, slen(s))]))
    A('slc_nil', ForAll([s, a], slc(s, a, a) == sempty, patterns=[slc(s, a, a)]))
    # srem: definition by position, plus the derived facts the solver would otherwise re-derive through pos/slc (lemmas/Remove.lean)
    A('srem_def', ForAll([s, x], Implies(mem(s, x), srem(s, x) == cat(slc(s, 0, pos(s, x)), slc(s, pos(s, x) + 1, slen(s)))), patterns=[srem(s, x)]))
    A('srem_mem_ne', ForAll([s, x, y], Implies(y != x, mem(srem(s, x), y) == mem(s, y)), patterns=[mem(srem(s, x), y), MultiPattern(srem(s, x), mem(s, y))]))
    A('srem_mem_self', ForAll([s, x], Implies(nodup(s), Not(mem(srem(s, x), x))), patterns=[srem(s, x)]))
    A('srem_len', ForAll([s, x], Implies(mem(s, x), slen(srem(s, x)) == slen(s) - 1), patterns=[srem(s, x)]))
    A('srem_nodup', ForAll([s, x], Implies(nodup(s), nodup(srem(s, x))), patterns=[srem(s, x)]))
    # chain_in: elimination, and introduction BY INDUCTION along the sequence (lemmas/Chain.lean): if the first element is in S and
    # membership is carried from each element to the next, every element is in S
    A('chain_in_elim', ForAll([P, s, i], Implies(And(chain_in(P, s), 0 <= i, i < slen(s)), Select(P, at(s, i))), patterns=[MultiPattern(chain_in(P, s), at(s, i))]))
    A('chain_in_intro', ForAll([P, s], Or(chain_in(P, s), And(slen(s) > 0, Not(Select(P, at(s, 0)))),
                                            Exists([i], And(0 <= i, i + 1 < slen(s), Select(P, at(s, i)), Not(Select(P, at(s, i + 1)))))),
                               patterns=[chain_in(P, s)]))
    # upd
    A('upd_len', ForAll([s, i, x], slen(upd(s, i, x)) == slen(s), patterns=[upd(s, i, x)]))
    A('upd_at', ForAll([s, i, x, j], Implies(And(0 <= j, j < slen(s)), at(upd(s, i, x), j) == If(j == i, x, at(s, j))),
                       patterns=[at(upd(s, i, x), j)]))
    # rev
    A('rev_len', ForAll([s], slen(rev(s)) == slen(s), patterns=[rev(s)]))
    A('rev_at', ForAll([s, i], Implies(And(0 <= i, i < slen(s)), at(rev(s), i) == at(s, slen(s) - 1 - i)), patterns=[at(rev(s), i)]))
    A('rev_mem', ForAll([s, y], mem(rev(s), y) == mem(s, y), patterns=[mem(rev(s), y)]))
    # sset
    A('sset_def', ForAll([s, y], Select(sset(s), y) == mem(s, y), patterns=[Select(sset(s), y)]))
    A('sset_def2', ForAll([s, y], Select(sset(s), y) == mem(s, y), patterns=[MultiPattern(sset(s), mem(s, y))]))
    # filt: order preserving filter, characterised by a strictly increasing bijection onto the kept indices
    r = filt(P, s)
    A('filt_len', ForAll([P, s], And(slen(r) <= slen(s)), patterns=[r]))
    A('filt_ix', ForAll([P, s, i], Implies(And(0 <= i, i < slen(r)),
                                           And(0 <= fix(P, s, i), fix(P, s, i) < slen(s), at(r, i) == at(s, fix(P, s, i)),
                                               Select(P, at(r, i)), fjx(P, s, fix(P, s, i)) == i)),
                        patterns=[at(r, i)]))
    A('filt_mono', ForAll([P, s, i, j], Implies(And(0 <= i, i < j, j < slen(r)), fix(P, s, i) < fix(P, s, j)),
                          patterns=[MultiPattern(fix(P, s, i), fix(P, s, j))]))
    A('filt_jx', ForAll([P, s, i], Implies(And(0 <= i, i < slen(s), Select(P, at(s, i))),
                                           And(0 <= fjx(P, s, i), fjx(P, s, i) < slen(r), fix(P, s, fjx(P, s, i)) == i,
                                               at(r, fjx(P, s, i)) == at(s, i))),
                        patterns=[MultiPattern(r, at(s, i))]))
    A('filt_mem', ForAll([P, s, y], mem(r, y) == And(mem(s, y), Select(P, y)), patterns=[mem(r, y), MultiPattern(r, mem(s, y))]))
    A('filt_snoc', ForAll([P, s, x], filt(P, app(s, x)) == If(Select(P, x), app(filt(P, s), x), filt(P, s)), patterns=[filt(P, app(s, x))]))
    A('filt_nil', ForAll([P], filt(P, sempty) == sempty, patterns=[filt(P, sempty)]))
    # congruence: predicates that agree on the members of s give the same filter (inductive fact; Lean: lemmas/Filter.lean)
    A('filt_cong', ForAll([P, Q, s], Or(Exists([x], And(mem(s, x), Select(P, x) != Select(Q, x))), filt(P, s) == filt(Q, s)),
                          patterns=[MultiPattern(filt(P, s), filt(Q, s))]))
    A('filt_nodup', ForAll([P, s], Implies(nodup(s), nodup(r)), patterns=[r]))
    # addall(s, t): snoc-recursive over t
    A('addall_nil', ForAll([s], addall(s, sempty) == s, patterns=[addall(s, sempty)]))
    A('addall_snoc', ForAll([s, t, x], addall(s, app(t, x)) == If(mem(addall(s, t), x), addall(s, t), app(addall(s, t), x)),
                            patterns=[addall(s, app(t, x))]))
    A('addall_mem', ForAll([s, t, y], mem(addall(s, t), y) == Or(mem(s, y), mem(t, y)), patterns=[mem(addall(s, t), y)]))
    A('addall_nodup', ForAll([s, t], Implies(nodup(s), nodup(addall(s, t))), patterns=[addall(s, t)]))
    A('addall_prefix', ForAll([s, t, i], Implies(And(0 <= i, i < slen(s)), at(addall(s, t), i) == at(s, i)), patterns=[at(addall(s, t), i)]))
    # appending a duplicate-free sequence that shares no member with s is plain concatenation (inductive; Lean: lemmas/Filter.lean)
    A('addall_cat', ForAll([s, t], Or(addall(s, t) == cat(s, t), Not(nodup(t)), Exists([x], And(mem(t, x), mem(s, x)))), patterns=[addall(s, t)]))
    A('addall_len', ForAll([s, t], slen(addall(s, t)) >= slen(s), patterns=[addall(s, t)]))
    M = Const('M', MapS)
    A('smap_len', ForAll([M, s], slen(smap(M, s)) == slen(s), patterns=[smap(M, s)]))
    A('smap_nil', ForAll([M], smap(M, sempty) == sempty, patterns=[smap(M, sempty)]))
    A('smap_snoc', ForAll([M, s, x], smap(M, app(s, x)) == app(smap(M, s), Select(M, x)), patterns=[smap(M, app(s, x))]))
    A('smap_at', ForAll([M, s, i], Implies(And(0 <= i, i < slen(s)), at(smap(M, s), i) == Select(M, at(s, i))), patterns=[at(smap(M, s), i)]))
    # strings
    A('strlen_nonneg', ForAll([x], strlen(x) >= 0, patterns=[strlen(x)]))
    A('sconcat_len', ForAll([x, y], strlen(sconcat(x, y)) == strlen(x) + strlen(y), patterns=[sconcat(x, y)]))
    A('sslice_len', ForAll([x, a, b], Implies(And(0 <= a, a <= b, b <= strlen(x)), strlen(sslice(x, a, b)) == b - a), patterns=[sslice(x, a, b)]))
    A('hexstr', ForAll([i], Implies(i >= 0, And(unhex(hexstr(i)) == i, strlen(hexstr(i)) >= 1,
                                                 Implies(i < 16, strlen(hexstr(i)) == 1), Implies(i < 256, strlen(hexstr(i)) <= 2),
                                                 Implies(i < 4096, strlen(hexstr(i)) <= 3), Implies(i < 65536, strlen(hexstr(i)) <= 4),
                                                 Implies(i < 1048576, strlen(hexstr(i)) <= 5))), patterns=[hexstr(i)]))
    # flat (List.flatten): snoc-recursive definition + membership; order / nodup lemmas (lemmas/Flat.lean)
    A('flat_nil', flat(sempty) == sempty)
    A('flat_snoc', ForAll([s, x], flat(app(s, x)) == cat(flat(s), sunbox(x)), patterns=[flat(app(s, x))]))
    A('flat_mem', ForAll([s, y], mem(flat(s), y) == Exists([j], And(0 <= j, j < slen(s), mem(sunbox(at(s, j)), y))), patterns=[mem(flat(s), y)]))
    A('flat_mem_intro', ForAll([s, j, y], Implies(And(0 <= j, j < slen(s), mem(sunbox(at(s, j)), y)), mem(flat(s), y)),
                               patterns=[MultiPattern(flat(s), mem(sunbox(at(s, j)), y))]))
    A('flat_nodup', ForAll([s], Or(nodup(flat(s)),
                                   Exists([j], And(0 <= j, j < slen(s), Not(nodup(sunbox(at(s, j)))))),
                                   Exists([i, j, y], And(0 <= i, i < j, j < slen(s), mem(sunbox(at(s, i)), y), mem(sunbox(at(s, j)), y)))),
                           patterns=[nodup(flat(s))]))
    A('flat_order', ForAll([s, i, j, x, y], Implies(And(0 <= i, i < j, j < slen(s), mem(sunbox(at(s, i)), x), mem(sunbox(at(s, j)), y), nodup(flat(s))),
                                                    pos(flat(s), x) < pos(flat(s), y)),
                           patterns=[MultiPattern(flat(s), mem(sunbox(at(s, i)), x), mem(sunbox(at(s, j)), y))]))
    # boxing
    A('ibox', ForAll([i], And(iunbox(ibox(i)) == i, is_int(ibox(i)), Not(is_ref(ibox(i))), Not(is_tup(ibox(i))), truthy(ibox(i)) == (i != 0)), patterns=[ibox(i)]))
    A('iunbox', ForAll([x], Implies(is_int(x), ibox(iunbox(x)) == x), patterns=[iunbox(x)]))
    A('sbox', ForAll([s], And(sunbox(sbox(s)) == s, is_tup(sbox(s)), Not(is_ref(sbox(s))), Not(is_int(sbox(s))), truthy(sbox(s)) == (slen(s) != 0)), patterns=[sbox(s)]))
    A('sunbox', ForAll([x], Implies(is_tup(x), sbox(sunbox(x)) == x), patterns=[sunbox(x)]))
    A('idof', ForAll([x], unid(idof(x)) == x, patterns=[idof(x)]))
    A('consts', And(Not(truthy(None_)), truthy(True_), Not(truthy(False_)),
                    *[Not(f(c)) for f in (is_int, is_tup, is_ref) for c in (None_, True_, False_, NotImpl_)]))
    return ax


_AXIOMS = None


def axioms_cached():
    """the axiom list, built once per process (the same AST objects every time: caches keyed by AST id stay valid)"""
    global _AXIOMS
    if _AXIOMS is None:
        _AXIOMS = axioms()
    return _AXIOMS


def distinct_consts():
    from z3 import Distinct
    cs = [None_, True_, False_, NotImpl_] + list(_sentinels.values())
    sent = [And(Not(is_int(c)), Not(is_tup(c)), truthy(c)) for c in _sentinels.values()]
    return [Distinct(*cs)] + sent


_ForAll = ForAll


def _bad_pattern(p):
    import z3
    todo = [p]
    while todo:
        x = todo.pop()
        if z3.is_app(x):
            k = x.decl().kind()
            if k in (z3.Z3_OP_ITE, z3.Z3_OP_AND, z3.Z3_OP_OR, z3.Z3_OP_NOT, z3.Z3_OP_EQ, z3.Z3_OP_IMPLIES):
                return True
            todo.extend(x.children())
        elif z3.is_quantifier(x):
            return True
    return False


def auto_patterns(vs, body, limit=6):
    """all minimal trigger candidates: applications of uninterpreted functions / select that mention every bound
    variable and contain no logical or ite structure.  Each is offered as an alternative single pattern."""
    import z3
    ids = {v.get_id() for v in vs}
    found = {}
    memo = {}

    def vars_in(e):
        k = e.get_id()
        if k in memo:
            return memo[k]
        if k in ids:
            r = frozenset([k])
        elif z3.is_app(e):
            r = frozenset().union(*[vars_in(c) for c in e.children()]) if e.num_args() else frozenset()
        else:
            r = frozenset()
        memo[k] = r
        return r

    def walk(e):
        if z3.is_quantifier(e):
            walk(e.body())      # bound vars of inner quantifiers are de Bruijn: vars_in ignores them
            return
        if not z3.is_app(e):
            return
        for c in e.children():
            walk(c)
        k = e.decl().kind()
        if (k == z3.Z3_OP_UNINTERPRETED and e.num_args() > 0) or k == z3.Z3_OP_SELECT:
            if vars_in(e) == ids and not _bad_pattern(e) and not _has_debruijn(e):
                # minimal: no child already covers all vars
                if not any(vars_in(c) == ids and ((c.decl().kind() == z3.Z3_OP_UNINTERPRETED and c.num_args() > 0) or c.decl().kind() == z3.Z3_OP_SELECT) for c in e.children() if z3.is_app(c)):
                    found[e.get_id()] = e
    walk(body)
    return list(found.values())[:limit]


def _has_debruijn(e):
    import z3
    todo = [e]
    while todo:
        x = todo.pop()
        if z3.is_var(x):
            return True
        if z3.is_app(x):
            todo.extend(x.children())
    return False


def QForAll(vs, body, patterns=None, auto=False, **kw):
    if auto:
        extra = auto_patterns(vs, body)
        have = {p.get_id() for p in (patterns or []) if not isinstance(p, tuple)}
        patterns = list(patterns or []) + [e for e in extra if e.get_id() not in have]
    """z3 ForAll that drops patterns it rejects (patterns containing ite / interpreted terms)"""
    if patterns:
        good = []
        for p in patterns:
            if _bad_pattern(p):
                continue
            try:
                _ForAll(vs, body, patterns=[p])
                good.append(p)
            except Exception:
                pass
        if good:
            return _ForAll(vs, body, patterns=good, **kw)
    return _ForAll(vs, body, **kw)



# ---- formula helpers (expanded in place, not uninterpreted, so goals are first-order over at/len) ----
_q = [0]


def fresh_int(name='k'):
    _q[0] += 1
    return Int(f'{name}!{_q[0]}')


def fresh(name, sort):
    _q[0] += 1
    return Const(f'{name}!{_q[0]}', sort)


def seq_eq(s, t):
    if s.eq(t):
        return BoolVal(True)
    return seqeq(s, t)


def seq_nodup(s):
    k = fresh_int('q')
    return And(nodup(s), QForAll([k], Implies(And(0 <= k, k < slen(s)), pos(s, at(s, k)) == k), patterns=[at(s, k)]))


def nodup_intro(s):
    """(forall k. pos(s, at(s,k)) == k) => nodup(s): how nodup is established."""
    k = fresh_int('q')
    return Implies(QForAll([k], Implies(And(0 <= k, k < slen(s)), pos(s, at(s, k)) == k), patterns=[at(s, k)]), nodup(s))


def set_eq(p, q):
    x = fresh('qx', V)
    return QForAll([x], Select(p, x) == Select(q, x), patterns=[Select(p, x), Select(q, x)])
