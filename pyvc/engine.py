"""pyvc engine: forward symbolic execution of a real Python function (AST re-read from /repo on every
run) against a sidecar contract, producing SMT obligations.  DESIGN.md §2.2.

Subset and value model are stated in DESIGN.md; anything outside raises OutOfSubset (exit 3), nothing
is silently skipped.
"""
import ast
import itertools
from z3 import (And, Or, Not, Implies, If, ForAll, Exists, Int, IntVal, BoolVal, Const, Select, Store, K,
                ArraySort, IntSort, BoolSort, is_true, is_false, simplify, Function, is_bool, is_int as z3_is_int,
                MultiPattern, Distinct)
from . import logic as L
from .logic import V, Sq, SetS, MapS
from .contract import FUNCS, CLASSES, find_function


from .logic import QForAll as ForAll


def _has_quant(e):
    import z3
    todo = [e]
    seen = set()
    while todo:
        x = todo.pop()
        if x.get_id() in seen:
            continue
        seen.add(x.get_id())
        if z3.is_quantifier(x):
            return True
        if z3.is_app(x):
            todo.extend(x.children())
    return False


class OutOfSubset(Exception):
    pass


class ContractError(Exception):
    pass


# ------------------------------------------------------------------ symbolic values
class SV:
    __slots__ = ("kind", "t", "hint", "items", "py", "tv")

    def __init__(self, kind, t=None, hint=None, items=None, py=None):
        self.kind, self.t, self.hint, self.items, self.py = kind, t, hint, items, py
        self.tv = None      # truth value computed structurally (x and y / x or y of mixed kinds), when known

    def __repr__(self):
        return f"SV({self.kind},{self.t if self.t is not None else self.items or self.py},{self.hint})"


def sv_int(t):
    return SV("int", IntVal(t) if isinstance(t, int) else t)


def sv_bool(t):
    return SV("bool", BoolVal(t) if isinstance(t, bool) else t)


def sv_v(t, hint=None):
    return SV("v", t, hint)


NONE = SV("v", L.None_, "none")

CONTAINER_HINTS = ("list", "set", "dict", "deque", "ddset", "frozenset")

_cls_ids = {}


def cls_id(name):
    if name not in _cls_ids:
        _cls_ids[name] = len(_cls_ids) + 1
    return _cls_ids[name]


def subclasses_of(name):
    out = {name}
    changed = True
    while changed:
        changed = False
        for c in CLASSES.values():
            if c.name not in out and any(b in out for b in c.bases):
                out.add(c.name)
                changed = True
    return out


EXC_PARENTS = {
    "KeyError": "LookupError", "IndexError": "LookupError", "LookupError": "Exception",
    "ValueError": "Exception", "TypeError": "Exception", "AttributeError": "Exception",
    "StopIteration": "Exception", "AssertionError": "Exception", "ZeroDivisionError": "ArithmeticError",
    "ArithmeticError": "Exception", "Exception": "BaseException", "NotImplementedError": "RuntimeError",
    "RuntimeError": "Exception", "BaseException": None,
    # sqlalchemy.exc hierarchy used by functions under contract
    "InvalidatePoolError": "DisconnectionError", "DisconnectionError": "SQLAlchemyError", "SQLAlchemyError": "Exception",
    "InvalidRequestError": "SQLAlchemyError", "PendingRollbackError": "InvalidRequestError", "ResourceClosedError": "InvalidRequestError",
    "TimeoutError": "SQLAlchemyError", "CircularDependencyError": "SQLAlchemyError", "ArgumentError": "SQLAlchemyError",
}


def exc_matches(raised, handler):
    """is exception class `raised` caught by `except handler`?  Unknown classes derive from Exception."""
    c = raised
    seen = 0
    while c is not None and seen < 20:
        if c == handler:
            return True
        c = EXC_PARENTS.get(c, "Exception" if c not in ("BaseException",) else None)
        seen += 1
    return False


# ------------------------------------------------------------------ state
class St:
    __slots__ = ("env", "heap", "pc", "alloc", "out", "ghost", "notes")

    def __init__(self, env, heap, pc, alloc, out=None, ghost=None, notes=()):
        self.env, self.heap, self.pc, self.alloc, self.out, self.ghost, self.notes = env, heap, pc, alloc, out, ghost or {}, notes

    def copy(self, **kw):
        s = St(self.env, self.heap, self.pc, self.alloc, self.out, self.ghost, self.notes)
        for k, v in kw.items():
            setattr(s, k, v)
        return s

    def assume(self, *fs):
        return self.copy(pc=self.pc + tuple(fs))

    def bind(self, name, sv):
        e = dict(self.env)
        e[name] = sv
        return self.copy(env=e)


class Obligation:
    def __init__(self, name, hyps, goal, kind, lineno, path):
        self.name, self.hyps, self.goal, self.kind, self.lineno, self.path = name, list(hyps), goal, kind, lineno, path
        self.result = None
        self.ms = None
        self.backend = None
        self.model = None


class Ctx:
    """continuations of the statement being executed"""
    __slots__ = ("k", "ret", "exc", "brk", "cont")

    def __init__(self, k, ret, exc, brk=None, cont=None):
        self.k, self.ret, self.exc, self.brk, self.cont = k, ret, exc, brk, cont

    def with_(self, **kw):
        c = Ctx(self.k, self.ret, self.exc, self.brk, self.cont)
        for a, b in kw.items():
            setattr(c, a, b)
        return c


FIELD_SORTS = {"int": IntSort(), "bool": BoolSort(), "seqv": Sq, "setv": SetS}


def type_hint(ty):
    """contract type string -> (kind, hint)"""
    if ty in ("int", "bool"):
        return ty, None
    if ty in ("seq", "tuple", "seqv"):
        return "seq", None
    if ty == "setv":
        return "set", None
    if ty == "v":
        return "v", None
    if ty.startswith("obj:"):
        return "v", ty[4:]
    if ty.startswith("opt:"):
        return "v", ty[4:]        # Optional[Class]: may be None (param_facts does not assume non-None)
    if ty.startswith("maybe:"):
        return type_hint(ty[6:])  # attribute that may be absent: the field holds <deleted_attr> then
    return "v", ty   # list/set/dict/deque/fn/str/<ClassName>


def is_dict_hint(h):
    return h == "dict" or (h in CLASSES and CLASSES[h].isa == "dict")


def HAS_PROP_FIELDS():
    return any(t.startswith("prop:") for c in CLASSES.values() for t in c.fields.values())


def HAS_MAYBE_FIELDS():
    return any(t.startswith("maybe:") for c in CLASSES.values() for t in c.fields.values())


class Exec:
    def __init__(self, contract, variant=None, source_root=None):
        self.c = contract
        self.variant = variant or {}
        kw = {"root": source_root} if source_root else {}
        self.node, self.segment, self.src = find_function(contract.path, contract.qualname, **kw)
        self.obls = []
        self.paths = 0
        self.heap0 = {}
        self.counter = itertools.count(1)
        self.loop_ordinals = {}
        self._number_loops()
        self.temp = itertools.count(1)
        self.assumptions = set()
        self.covers = []
        self.extra_axioms = []
        self.path_log = []
        self.types = dict(contract.types)
        self.types.update(self.variant.get("types", {}))
        self.requires = list(contract.requires) + list(self.variant.get("requires", []))
        self.raises = dict(contract.raises, **self.variant.get("raises", {}))
        self.may_raise = dict(contract.may_raise, **self.variant.get("may_raise", {}))
        self.cls = CLASSES.get(contract.cls) if contract.cls else None
        self.apply_fns = {}

    # ---------------------------------------------------------------- utilities
    def fresh(self, name, sort):
        c = Const(f"{name}!{next(self.counter)}", sort)
        if name == "H_S_dkeys":
            # every later heap keeps the dict typing fact of the entry heap: the keys of a dict are duplicate free
            o = Const("o", V)
            self.extra_axioms.append(ForAll([o], L.nodup(Select(c, o)), patterns=[Select(c, o)]))
        return c

    def fresh_sv(self, name, ty):
        if ty.startswith("args:"):
            # a *args tuple of statically known length: one entry per listed element type
            return SV("tuple", items=[self.fresh_sv(f"{name}{i}", t) for i, t in enumerate([t for t in ty[5:].split(",") if t])])
        kind, hint = type_hint(ty)
        sort = {"int": IntSort(), "bool": BoolSort(), "v": V, "seq": Sq, "set": SetS}[kind]
        return SV(kind, self.fresh(name, sort), hint)

    def _number_loops(self):
        n = 0
        for sub in ast.walk(self.node):
            if isinstance(sub, (ast.For, ast.While)):
                # loops of nested function definitions are not ours
                self.loop_ordinals[id(sub)] = n
                n += 1
        # remove loops lexically inside nested defs
        for sub in ast.walk(self.node):
            if sub is not self.node and isinstance(sub, (ast.FunctionDef, ast.Lambda)):
                for inner in ast.walk(sub):
                    self.loop_ordinals.pop(id(inner), None)
        # renumber in source order
        loops = [s for s in ast.walk(self.node) if id(s) in self.loop_ordinals]
        loops.sort(key=lambda s: (s.lineno, s.col_offset))
        self.loop_ordinals = {id(s): i for i, s in enumerate(loops)}
        self.nloops = len(loops)

    def rel_line(self, node):
        return getattr(node, "lineno", self.node.lineno) - self.node.lineno

    def hfield(self, st, name, sort=None):
        """current heap array for field `name`"""
        if name not in st.heap:
            if name not in self.heap0:
                if sort is None:
                    sort = self.field_sort(name)
                self.heap0[name] = Const("H_" + name.replace("$", "S_"), ArraySort(V, sort))
            h = dict(st.heap)
            h[name] = self.heap0[name]
            st.heap = h            # benign: lazily materialised initial value (same term on all paths)
        return st.heap[name]

    def materialise_all(self, st):
        """give every declared heap field its array in `st` NOW.  Needed before a wildcard havoc (`modifies=["*"]` of a callee, `*` in a
        loop frame): a field that no statement has touched yet has no entry in st.heap, would be created lazily LATER from the initial
        constant and would thereby read as unchanged across the wildcard (seen as a contradiction with a callee postcondition over a
        ghost field, DESIGN §11.5)"""
        names = {"$seq", "$set", "$dkeys", "$dval", "$dd", "$ddkeys"}
        for c in CLASSES.values():
            names |= {n for n, t in c.fields.items() if not str(t).startswith("prop:")}
        names |= {k[1:] for k in self.c.types if k.startswith(".")}
        for n in sorted(names):
            self.hfield(st, n)
        return st

    def field_sort(self, name):
        if name == "$seq" or name == "$dkeys":
            return Sq
        if name == "$set" or name == "$ddkeys":
            return SetS
        if name == "$dval":
            return MapS
        if name == "$dd":
            return ArraySort(V, SetS)
        ty = self.field_type(name)
        return FIELD_SORTS.get(ty, V)

    def field_type(self, name):
        for c in CLASSES.values():
            if name in c.fields:
                return c.fields[name]
        return self.c.types.get("." + name, "v")

    def hset(self, st, name, obj, val):
        arr = self.hfield(st, name)
        h = dict(st.heap)
        h[name] = Store(arr, obj, val)
        return st.copy(heap=h)

    def hget(self, st, name, obj):
        return Select(self.hfield(st, name), obj)

    # boxing ----------------------------------------------------------------
    def to_v(self, sv, st=None):
        k = sv.kind
        if k == "v":
            return sv.t
        if k == "int":
            return L.ibox(sv.t)
        if k == "bool":
            return L.bbox(sv.t)
        if k == "seq":
            return L.sbox(sv.t)
        if k == "tuple":
            return L.sbox(self.tuple_seq(sv))
        if k == "py" and isinstance(sv.py, str):
            c = L.sentinel("str_" + sv.py)
            self.extra_axioms.append(L.strlen(c) == len(sv.py))
            return c
        if k == "py" and sv.py is None:
            return L.None_
        if k == "py" and isinstance(sv.py, tuple) and sv.py[0] in ("class", "attr"):
            return L.sentinel("class_" + str(sv.py[-1]))
        raise OutOfSubset(f"cannot box {sv}")

    def tuple_seq(self, sv):
        s = L.sempty
        for it in sv.items:
            s = L.app(s, self.to_v(it))
        return s

    def as_int(self, sv):
        if sv.kind == "int":
            return sv.t
        if sv.kind == "bool":
            return If(sv.t, IntVal(1), IntVal(0))
        if sv.kind == "v":
            return L.iunbox(sv.t)
        raise OutOfSubset(f"not an int: {sv}")

    def truth(self, sv, st):
        """Python truthiness as a z3 Bool"""
        if sv.tv is not None:
            return sv.tv
        k = sv.kind
        if k == "bool":
            return sv.t
        if k == "int":
            return sv.t != 0
        if k == "seq":
            return L.slen(sv.t) != 0
        if k == "tuple":
            return BoolVal(len(sv.items) != 0)
        if k == "set":
            x = self.fresh("w", V)
            return Exists([x], Select(sv.t, x))
        if k == "py":
            return BoolVal(bool(sv.py))
        if k == "v":
            h = sv.hint
            if h == "none":
                return BoolVal(False)
            if h in ("list", "deque"):
                return L.slen(self.hget(st, "$seq", sv.t)) != 0
            if is_dict_hint(h):
                # second conjunct: an instance of axiom at_mem (a non-empty key sequence has its first element as a member); it only
                # hands the solver the ground term it needs to conclude "no key => empty" and does not change the meaning
                ks = self.hget(st, "$dkeys", sv.t)
                return And(L.slen(ks) != 0, Implies(L.slen(ks) != 0, L.mem(ks, L.at(ks, IntVal(0)))))
            if h in ("set", "frozenset") or (h in CLASSES and CLASSES[h].isa == "set"):
                return self.set_nonempty(self.hget(st, "$set", sv.t))
            if h in CLASSES or h == "fn":
                c = CLASSES.get(h)
                if c is not None and c.truth:
                    inner = self.truth(self.pev(ast.parse(c.truth, mode="eval").body, st.copy(env={"self": sv}), Mode(True)), st)
                    return And(sv.t != L.None_, inner)
                if c is not None and "__len__" in c.methods:
                    raise OutOfSubset("truthiness through __len__ contract")
                if c is not None and c.isa in ("list",):
                    return L.slen(self.hget(st, "$seq", sv.t)) != 0
                # Optional[obj]: None is falsy, an object is truthy
                return sv.t != L.None_
            return L.truthy(sv.t)
        raise OutOfSubset(f"truthiness of {sv}")

    def def_set(self, body_fn, binds=None):
        """a set given by a membership condition.  Outside binders: a fresh constant with a defining axiom
        (E-matching friendly, cvc5 compatible); under binders: a lambda term."""
        from z3 import Lambda
        x = Const("x", V)
        if binds:
            return Lambda([x], body_fn(x))
        body = body_fn(x)
        memo = self.__dict__.setdefault("_defset_memo", {})
        key = body.get_id()
        if key in memo:
            return memo[key][0]
        r = self.fresh("set", SetS)
        self.extra_axioms.append(ForAll([x], Select(r, x) == body, patterns=[Select(r, x)]))
        memo[key] = (r, body)      # keep `body` alive so that the AST id is not reused
        return r

    def set_nonempty(self, s):
        # witness function keeps the formula quantifier free
        w = Function("set_witness", SetS, V)
        x = Const("x", V)
        ax = ForAll([x], Implies(Select(s, x), Select(s, w(s))), patterns=[Select(s, x)])
        self.extra_axioms.append(ax)
        return Select(s, w(s))

    # ---------------------------------------------------------------- equality / identity
    def eq(self, a, b, st, identity=False):
        """Python == (or `is` when identity) as z3 Bool, for the modelled value kinds"""
        if a.kind == "py" and a.py is None:
            a = NONE
        if b.kind == "py" and b.py is None:
            b = NONE
        if a.kind == "int" and b.kind == "int":
            return a.t == b.t
        if a.kind == "bool" and b.kind == "bool":
            return a.t == b.t
        if a.kind == "tuple" and b.kind == "tuple":
            if len(a.items) != len(b.items):
                return BoolVal(False)
            return And(*[self.eq(x, y, st, identity) for x, y in zip(a.items, b.items)]) if a.items else BoolVal(True)
        if a.kind == "seq" and b.kind == "seq":
            return L.seq_eq(a.t, b.t)
        if a.kind in ("seq", "tuple") and b.kind in ("seq", "tuple"):
            sa = a.t if a.kind == "seq" else self.tuple_seq(a)
            sb = b.t if b.kind == "seq" else self.tuple_seq(b)
            return L.seq_eq(sa, sb)
        if a.kind == "set" and b.kind == "set":
            return L.set_eq(a.t, b.t)
        if a.kind == "set" or b.kind == "set":
            sa, sb = self.as_set(a, st), self.as_set(b, st)
            return L.set_eq(sa, sb)
        if a.kind == "seq" or b.kind == "seq":
            if not identity and (a.kind == "v" and a.hint in ("list", "deque")) or (b.kind == "v" and b.hint in ("list", "deque")):
                return L.seq_eq(self.as_seq(a, st), self.as_seq(b, st))
        if not identity and a.kind == "v" and b.kind == "v" and a.hint in ("list", "deque") and b.hint in ("list", "deque"):
            return L.seq_eq(self.as_seq(a, st), self.as_seq(b, st))
        # fall back to value identity on V (ints boxed: == and `is` coincide on the model's boxed ints)
        return self.to_v(a) == self.to_v(b)

    # ---------------------------------------------------------------- views of containers
    def is_setlike(self, sv):
        return sv.kind == "set" or (sv.kind == "v" and (sv.hint in ("set", "frozenset") or (sv.hint in CLASSES and CLASSES[sv.hint].isa == "set")))

    def is_listlike(self, sv):
        return sv.kind in ("seq", "tuple") or (sv.kind == "v" and (sv.hint in ("list", "deque") or (sv.hint in CLASSES and CLASSES[sv.hint].isa == "list")))

    def as_seq(self, sv, st):
        """sequence of the elements in iteration order (pure)"""
        if sv.kind == "seq":
            return sv.t
        if sv.kind == "tuple":
            return self.tuple_seq(sv)
        if sv.kind == "v":
            h = sv.hint
            if h in ("list", "deque") or (h in CLASSES and CLASSES[h].isa == "list"):
                return self.hget(st, "$seq", sv.t)
            if is_dict_hint(h):
                return self.hget(st, "$dkeys", sv.t)
            if h in CLASSES and CLASSES[h].view and CLASSES[h].view.startswith("seq:"):
                fld = CLASSES[h].view[4:]
                return self.hget(st, "$seq", self.hget(st, fld, sv.t))
            if h in ("set", "frozenset") or (h in CLASSES and CLASSES[h].isa == "set"):
                return self.set_order(self.hget(st, "$set", sv.t))
            if h == "tupleval" or h is None or h in ("iterable", "sentinel", "none", "notimpl"):
                # an immutable tuple value stored as V
                return L.sunbox(sv.t)
        if sv.kind == "set":
            return self.set_order(sv.t)
        raise OutOfSubset(f"not a sequence: {sv}")

    def set_order(self, s):
        """arbitrary but fixed duplicate-free enumeration of a finite set (iteration order is unconstrained)"""
        f = Function("set_order", SetS, Sq)
        ss = Const("ss", SetS)
        x = Const("x", V)
        self.extra_axioms.append(ForAll([ss], L.nodup(f(ss)), patterns=[f(ss)]))
        self.extra_axioms.append(ForAll([ss, x], L.mem(f(ss), x) == Select(ss, x), patterns=[L.mem(f(ss), x), MultiPattern(f(ss), Select(ss, x))]))
        self.assumptions.add("set iteration order: an arbitrary duplicate-free enumeration, fixed per set value (finite sets)")
        return f(s)

    def as_set(self, sv, st):
        if sv.kind == "set":
            return sv.t
        if sv.kind == "v" and sv.hint and sv.hint.startswith("ddslot:"):
            d = st.env[sv.hint[7:]]
            return Select(self.hget(st, "$dd", d.t), sv.t)
        if sv.kind == "v" and (sv.hint in ("set", "frozenset") or (sv.hint in CLASSES and CLASSES[sv.hint].isa == "set")):
            return self.hget(st, "$set", sv.t)
        if sv.kind == "v" and is_dict_hint(sv.hint):
            return L.sset(self.hget(st, "$dkeys", sv.t))
        if sv.kind == "v" and sv.hint == "ddset":
            return self.hget(st, "$ddkeys", sv.t)
        return L.sset(self.as_seq(sv, st))

    def contains(self, container, item, st):
        x = self.to_v(item)
        if container.kind == "tuple":
            return Or(*[self.eq(it, item, st) for it in container.items]) if container.items else BoolVal(False)
        if container.kind == "set":
            return Select(container.t, x)
        if container.kind == "seq":
            return L.mem(container.t, x)
        if container.kind == "v":
            h = container.hint
            if h in ("set", "frozenset") or (h in CLASSES and CLASSES[h].isa == "set"):
                return Select(self.hget(st, "$set", container.t), x)
            if h in ("list", "deque") or (h in CLASSES and CLASSES[h].isa == "list"):
                return L.mem(self.hget(st, "$seq", container.t), x)
            if is_dict_hint(h):
                return L.mem(self.hget(st, "$dkeys", container.t), x)
            if h == "ddset":
                return Select(self.hget(st, "$ddkeys", container.t), x)
            if h in CLASSES and "__contains__" in CLASSES[h].methods:
                raise OutOfSubset("__contains__ contract call in pure position")
            if h in CLASSES and CLASSES[h].view:
                return L.mem(self.as_seq(container, st), x)
            return L.mem(L.sunbox(container.t), x)
        raise OutOfSubset(f"`in` on {container}")


# ====================================================================== pure expression evaluation
class Mode:
    """how an expression is being evaluated: code (checks != None: implicit exceptions recorded) or spec"""
    __slots__ = ("spec", "old", "checks", "result", "binds", "under")

    def __init__(self, spec=False, old=None, checks=None, result=None, binds=None, under=False):
        self.spec, self.old, self.checks, self.result, self.binds, self.under = spec, old, checks, result, binds or {}, under

    def sub(self, binds):
        """mode for the body of a binder (quantifier / lambda / comprehension variable)"""
        return Mode(self.spec, self.old, None, self.result, binds, True)


PURE_BUILTINS = {"hex", "getattr", "len", "isinstance", "id", "hasattr", "bool", "tuple", "frozenset", "min", "max", "abs", "callable", "type", "iter", "int"}
SPEC_FUNCS = {"attempted", "mapfn", "all_in", "tagall", "flat", "oldfield", "called", "listof", "intof", "after", "values", "entry", "implies", "old", "call", "call2", "all", "any", "no_dups", "seq", "setof", "filt", "addall", "cat", "forall", "exists",
              "is_tuple", "ite", "fresh", "contents", "keys", "dget", "dhas", "rng", "idof", "rev", "prefix", "isinst", "truth",
              "subseq_of", "perm", "count", "sorted_by", "index", "pair", "slice_adj", "typeis", "allocated", "ghost"}


def _patch_engine():
    E = Exec

    # --------------------------------------------------------------- purity
    def is_pure(self, node, st):
        for sub in ast.walk(node):
            if isinstance(sub, (ast.Yield, ast.YieldFrom, ast.Await, ast.NamedExpr)):
                return False
            if isinstance(sub, ast.Call):
                if not self.call_is_pure(sub, st):
                    return False
            if isinstance(sub, ast.Subscript) and not isinstance(getattr(sub, "ctx", None), ast.Store):
                # defaultdict read inserts a key
                try:
                    base = sub.value
                    if isinstance(base, ast.Name) and base.id in st.env and st.env[base.id].hint == "ddset":
                        return False
                except Exception:
                    pass
            if isinstance(sub, (ast.ListComp, ast.SetComp, ast.DictComp, ast.List, ast.Set, ast.Dict)):
                return False     # allocates
            if isinstance(sub, ast.Attribute) and HAS_PROP_FIELDS() and self.prop_key(sub, st) is not None:
                return False     # property under contract: a contract call
        return True
    E.is_pure = is_pure

    def prop_key(self, node, st):
        """contract key of the property `node` reads (field declared 'prop:<key>' in its class), else None"""
        if not any(node.attr in c.fields and c.fields[node.attr].startswith("prop:") for c in CLASSES.values()):
            return None
        try:
            b = self.pev(node.value, st, Mode(True))
        except Exception:
            return None
        if b.kind == "v" and b.hint in CLASSES:
            ty = self.lookup_field_type(CLASSES[b.hint], node.attr)
            if ty and ty.startswith("prop:"):
                return ty[5:]
        return None
    E.prop_key = prop_key

    def len_method(self, call, st):
        if len(call.args) != 1 or not self.is_pure(call.args[0], st):
            return None
        try:
            a = self.pev(call.args[0], st, Mode(True))
        except Exception:
            return None
        if a.kind == "v" and a.hint in CLASSES and not CLASSES[a.hint].isa and not CLASSES[a.hint].view:
            return self.lookup_method(CLASSES[a.hint], "__len__")
        return None
    E.len_method = len_method

    def call_is_pure(self, call, st):
        f = call.func
        txt = ast.unparse(f)
        if txt in self.c.callees:
            t0 = self.callee_target(txt)[0]
            if t0.startswith("subst:"):
                return self.is_pure(ast.parse(t0[6:], mode="eval").body, st)
            return t0.startswith("pure:") or t0 in ("identity", "id")
        if isinstance(f, ast.Name):
            if f.id == "len" and self.len_method(call, st) is not None:
                return False        # len(obj) of a class whose __len__ is under contract: a contract call
            if f.id in PURE_BUILTINS or f.id in SPEC_FUNCS or f.id.startswith("pure_"):
                return True
            if f.id in ("list", "set", "dict", "reversed", "sorted"):
                return False   # allocate
            sv = st.env.get(f.id)
            if sv is not None and sv.hint == "fn":
                return True
            return False
        if isinstance(f, ast.Attribute):
            if txt in ("cython.cast", "typing.cast"):
                return True
            if self.fn_field(f, st) is not None:
                return True
            m = f.attr
            if m in ("get", "isdisjoint", "issubset", "issuperset", "index", "count", "keys", "values", "items", "startswith", "endswith", "__contains__", "__len__"):
                # pure container observers (only when receiver is a known container; contract methods handled above)
                return self.recv_is_builtin_container(f.value, st)
        return False
    E.call_is_pure = call_is_pure

    def fn_field(self, f, st):
        """f = <obj>.<attr> where attr is a field of contract type 'fn' (a stored callable): the field value, else None"""
        try:
            base = self.pev(f.value, st, Mode(spec=True))
        except Exception:
            return None
        if base.kind == "v" and base.hint in CLASSES and self.lookup_field_type(CLASSES[base.hint], f.attr) == "fn":
            return self.read_field(st, base, f.attr, Mode(spec=True))
        return None
    E.fn_field = fn_field

    def recv_is_builtin_container(self, node, st):
        try:
            sv = self.pev(node, st, Mode(spec=True))
        except Exception:
            return False
        return sv.kind in ("seq", "set", "tuple") or (sv.kind == "v" and sv.hint in CONTAINER_HINTS)
    E.recv_is_builtin_container = recv_is_builtin_container

    # --------------------------------------------------------------- pure evaluator
    def pev(self, node, st, m):
        meth = getattr(self, "pev_" + type(node).__name__, None)
        if meth is None:
            raise OutOfSubset(f"expression {type(node).__name__}: {ast.unparse(node)[:60]}")
        r = meth(node, st, m)
        if r.kind == "v" and r.hint is None and isinstance(node, (ast.Subscript, ast.Call, ast.Attribute)):
            ty = self.types.get("expr:" + ast.unparse(node))
            if ty:
                kind, hint = type_hint(ty)
                if kind == "int":
                    return SV("int", L.iunbox(r.t))
                return SV("v", r.t, hint)
        return r
    E.pev = pev

    def pev_Constant(self, node, st, m):
        v = node.value
        if v is None:
            return NONE
        if isinstance(v, bool):
            return sv_bool(v)
        if isinstance(v, int):
            return sv_int(v)
        if isinstance(v, str):
            return SV("py", py=v)
        if v is Ellipsis:
            return SV("py", py=Ellipsis)
        if isinstance(v, float) and v == int(v):
            self.assumptions.add("float constants with integral value are read as integers; time/float arithmetic is over mathematical integers")
            return sv_int(int(v))
        raise OutOfSubset(f"constant {v!r}")
    E.pev_Constant = pev_Constant

    def pev_Name(self, node, st, m):
        n = node.id
        if n in m.binds:
            return m.binds[n]
        if n == "result" and m.spec and m.result is not None:
            return m.result
        if n in st.env:
            return st.env[n]
        if n in self.c.consts or n in self.variant.get("consts", {}):
            kind = self.variant.get("consts", {}).get(n, self.c.consts.get(n))
            if kind == "sentinel":
                return sv_v(L.sentinel(n), "sentinel")
            if kind == "class":
                return SV("py", py=("class", n))
            if isinstance(kind, tuple) and kind[0] == "int":
                return sv_int(kind[1])
            if isinstance(kind, tuple) and kind[0] == "bool":
                return sv_bool(kind[1])
            if kind == "module":
                return SV("py", py=("module", n))
            if isinstance(kind, tuple) and kind[0] == "idset":
                ids = [L.ibox(L.idof(L.sentinel(nm))) for nm in kind[1]]
                return SV("set", self.def_set(lambda x: Or(*[x == i for i in ids])))
        if n in ("None",):
            return NONE
        if n == "NotImplemented":
            return sv_v(L.NotImpl_, "notimpl")
        if n in CLASSES or n in ("set", "list", "dict", "tuple", "frozenset", "int", "str", "bool", "object", "type"):
            return SV("py", py=("class", n))
        if n in ("cython", "util", "typing"):
            return SV("py", py=("module", n))
        if n in self.types:
            raise ContractError(f"typed name {n} not bound")
        raise OutOfSubset(f"unbound name {n!r} (declare it in types/consts)")
    E.pev_Name = pev_Name

    def pev_Attribute(self, node, st, m):
        txt = ast.unparse(node)
        if txt in self.c.consts:
            kind = self.c.consts[txt]
            if kind == "sentinel":
                return sv_v(L.sentinel(txt.replace(".", "_")), "sentinel")
            if kind == "class":
                return SV("py", py=("class", txt.split(".")[-1]))
            if isinstance(kind, tuple) and kind[0] == "int":
                return sv_int(kind[1])
            if isinstance(kind, tuple) and kind[0] == "bool":
                return sv_bool(kind[1])
        if txt == "cython.compiled":
            return sv_bool(False)
        base = self.pev(node.value, st, m)
        if base.kind == "py":
            if isinstance(base.py, tuple) and base.py[0] in ("module", "class"):
                return SV("py", py=("attr", base.py[1], node.attr))
            raise OutOfSubset(f"attribute of {base}")
        if base.kind != "v":
            raise OutOfSubset(f"attribute {node.attr} of {base}")
        return self.read_field(st, base, node.attr, m)
    E.pev_Attribute = pev_Attribute

    def read_field(self, st, base, attr, m):
        ty = None
        if base.hint in CLASSES:
            c = CLASSES[base.hint]
            ty = self.lookup_field_type(c, attr)
            if ty is None and attr == "__class__":
                return SV("py", py=("classof", base))
        if ty is None:
            ty = self.c.types.get("." + attr)
        if ty is None:
            raise OutOfSubset(f"field {attr!r} of {base.hint!r} not declared in a class contract")
        if ty.startswith("prop:"):
            raise OutOfSubset(f"property {attr} in pure position")
        kind, hint = type_hint(ty)
        t = self.hget(st, attr, base.t)
        if ty.startswith("maybe:") and not m.spec and m.checks is not None:
            # reading an absent attribute raises AttributeError (code position only; contracts use hasattr())
            m.checks.append((t != L.sentinel("deleted_attr"), "AttributeError", None))
        if kind == "int":
            return SV("int", t)
        if kind == "bool":
            return SV("bool", t)
        if ty == "seqv":
            return SV("seq", t)
        if ty == "setv":
            return SV("set", t)
        return SV("v", t, hint)
    E.read_field = read_field

    def lookup_field_type(self, c, attr):
        if attr in c.fields:
            return c.fields[attr]
        for b in c.bases:
            if b in CLASSES:
                r = self.lookup_field_type(CLASSES[b], attr)
                if r is not None:
                    return r
        return None
    E.lookup_field_type = lookup_field_type

    def pev_Tuple(self, node, st, m):
        return SV("tuple", items=[self.pev(e, st, m) for e in node.elts])
    E.pev_Tuple = pev_Tuple

    def pev_List(self, node, st, m):
        if m.spec:
            s = L.sempty
            for e in node.elts:
                s = L.app(s, self.to_v(self.pev(e, st, m)))
            return SV("seq", s)
        raise OutOfSubset("list display in pure code position")
    E.pev_List = pev_List

    def pev_UnaryOp(self, node, st, m):
        v = self.pev(node.operand, st, m)
        if isinstance(node.op, ast.Not):
            return sv_bool(Not(self.truth(v, st)))
        if isinstance(node.op, ast.USub):
            return sv_int(-self.as_int(v))
        if isinstance(node.op, ast.UAdd):
            return sv_int(self.as_int(v))
        raise OutOfSubset("unary op")
    E.pev_UnaryOp = pev_UnaryOp

    def pev_BoolOp(self, node, st, m):
        if m.checks is not None and not m.spec:
            # short circuit: the implicit exceptions of a later operand can only happen when it is evaluated at all
            vals = []
            guard = []
            for v in node.values:
                sub_checks = []
                m2 = Mode(m.spec, m.old, sub_checks, m.result, m.binds, m.under)
                sv = self.pev(v, st, m2)
                for (ok, exc, nd) in sub_checks:
                    m.checks.append((Implies(And(*guard), ok) if guard else ok, exc, nd))
                vals.append(sv)
                t = self.truth(sv, st)
                guard.append(t if isinstance(node.op, ast.And) else Not(t))
        else:
            vals = [self.pev(v, st, m) for v in node.values]
        if all(v.kind == "bool" for v in vals) or m.spec:
            ts = [self.truth(v, st) for v in vals]
            return sv_bool(And(*ts) if isinstance(node.op, ast.And) else Or(*ts))
        # value semantics: x and y -> y if truthy(x) else x   (all operands boxed to V)
        acc = vals[-1]
        for v in reversed(vals[:-1]):
            tv = self.truth(v, st)
            if isinstance(node.op, ast.And):
                acc = self.ite_sv(tv, acc, v, st)
            else:
                acc = self.ite_sv(tv, v, acc, st)
        # the truth of the result is the conjunction / disjunction of the operands' truths (exact, whatever the value's kind)
        ts = [self.truth(v, st) for v in vals]
        acc = SV(acc.kind, acc.t, acc.hint, acc.items, acc.py)
        acc.tv = And(*ts) if isinstance(node.op, ast.And) else Or(*ts)
        return acc
    E.pev_BoolOp = pev_BoolOp

    def ite_sv(self, c, a, b, st):
        if a.kind == b.kind and a.kind in ("int", "bool", "seq", "set"):
            return SV(a.kind, If(c, a.t, b.t), a.hint)
        if a.kind == "v" and b.kind == "v":
            hint = a.hint if a.hint == b.hint else (a.hint if b.hint in ("none", None) else (b.hint if a.hint in ("none", None) else None))
            return SV("v", If(c, a.t, b.t), hint)
        if a.kind == "tuple" and b.kind == "tuple" and len(a.items) == len(b.items):
            return SV("tuple", items=[self.ite_sv(c, x, y, st) for x, y in zip(a.items, b.items)])
        if a.kind in ("seq", "tuple") and b.kind in ("seq", "tuple"):
            return SV("seq", If(c, self.as_seq(a, st), self.as_seq(b, st)))
        # operands of different kinds (e.g. an object and a bool): the result has no single class
        return SV("v", If(c, self.to_v(a), self.to_v(b)), None)
    E.ite_sv = ite_sv

    def pev_IfExp(self, node, st, m):
        c = self.truth(self.pev(node.test, st, m), st)
        if m.checks is not None and not m.spec:
            # only the chosen arm is evaluated: its implicit exceptions are conditional on the test
            arms = []
            for arm, g in ((node.body, c), (node.orelse, Not(c))):
                sub_checks = []
                sv = self.pev(arm, st, Mode(m.spec, m.old, sub_checks, m.result, m.binds, m.under))
                for (ok, exc, nd) in sub_checks:
                    m.checks.append((Implies(g, ok), exc, nd))
                arms.append(sv)
            return self.ite_sv(c, arms[0], arms[1], st)
        return self.ite_sv(c, self.pev(node.body, st, m), self.pev(node.orelse, st, m), st)
    E.pev_IfExp = pev_IfExp

    def pev_Compare(self, node, st, m):
        left = self.pev(node.left, st, m)
        conj = []
        for op, rn in zip(node.ops, node.comparators):
            right = self.pev(rn, st, m)
            conj.append(self.compare(op, left, right, st, m))
            left = right
        return sv_bool(And(*conj) if len(conj) > 1 else conj[0])
    E.pev_Compare = pev_Compare

    def compare(self, op, a, b, st, m):
        if isinstance(op, ast.Is):
            return self.eq(a, b, st, identity=True)
        if isinstance(op, ast.IsNot):
            return Not(self.eq(a, b, st, identity=True))
        if isinstance(op, ast.Eq):
            return self.eq(a, b, st)
        if isinstance(op, ast.NotEq):
            return Not(self.eq(a, b, st))
        if isinstance(op, ast.In):
            return self.contains(b, a, st)
        if isinstance(op, ast.NotIn):
            return Not(self.contains(b, a, st))
        if self.is_setlike(a) and self.is_setlike(b) and m.spec:
            sa, sb = self.as_set(a, st), self.as_set(b, st)
            x = self.fresh("w", V)
            sub = ForAll([x], Implies(Select(sa, x), Select(sb, x)), patterns=[Select(sa, x)])
            sup = ForAll([x], Implies(Select(sb, x), Select(sa, x)), patterns=[Select(sb, x)])
            if isinstance(op, ast.LtE):
                return sub
            if isinstance(op, ast.GtE):
                return sup
        if self.is_float(a) or self.is_float(b):
            # real-number comparison: an uninterpreted predicate of the two operands (no arithmetic facts are assumed)
            f = Function("fcmp_" + type(op).__name__, V, V, BoolSort())
            return f(self.to_v(a), self.to_v(b))
        x, y = self.as_int(a), self.as_int(b)
        if isinstance(op, ast.Lt):
            return x < y
        if isinstance(op, ast.LtE):
            return x <= y
        if isinstance(op, ast.Gt):
            return x > y
        if isinstance(op, ast.GtE):
            return x >= y
        raise OutOfSubset("comparison op")
    E.compare = compare

    def is_float(self, sv):
        return sv.kind == "v" and sv.hint == "float"
    E.is_float = is_float

    def is_str(self, sv):
        return (sv.kind == "py" and isinstance(sv.py, str)) or (sv.kind == "v" and sv.hint == "str")
    E.is_str = is_str

    def pev_BinOp(self, node, st, m):
        a = self.pev(node.left, st, m)
        b = self.pev(node.right, st, m)
        op = node.op
        if isinstance(op, ast.Add) and self.is_str(a) and self.is_str(b):
            return SV("v", L.sconcat(self.to_v(a), self.to_v(b)), "str")
        if isinstance(op, ast.Add) and (a.kind in ("seq", "tuple") or b.kind in ("seq", "tuple") or (self.is_listlike(a) and self.is_listlike(b))):
            return SV("seq", L.cat(self.as_seq(a, st), self.as_seq(b, st)))
        if self.is_setlike(a) and self.is_setlike(b) and isinstance(op, (ast.BitOr, ast.BitAnd, ast.Sub, ast.BitXor)):
            # also in code position: `a - b` on sets builds a new set = an immutable snapshot value of the current contents
            sa, sb = self.as_set(a, st), self.as_set(b, st)
            if isinstance(op, ast.BitOr):
                return SV("set", self.def_set(lambda x: Or(Select(sa, x), Select(sb, x)), m.under))
            if isinstance(op, ast.BitAnd):
                return SV("set", self.def_set(lambda x: And(Select(sa, x), Select(sb, x)), m.under))
            if isinstance(op, ast.Sub):
                return SV("set", self.def_set(lambda x: And(Select(sa, x), Not(Select(sb, x))), m.under))
            if isinstance(op, ast.BitXor):
                return SV("set", self.def_set(lambda x: Select(sa, x) != Select(sb, x), m.under))
        if self.is_float(a) or self.is_float(b):
            # float arithmetic is opaque: an uninterpreted function of the operands
            f = Function("fop_" + type(op).__name__, V, V, V)
            return SV("v", f(self.to_v(a), self.to_v(b)), "float")
        x, y = self.as_int(a), self.as_int(b)
        if isinstance(op, ast.Add):
            return sv_int(x + y)
        if isinstance(op, ast.Sub):
            return sv_int(x - y)
        if isinstance(op, ast.Mult):
            return sv_int(x * y)
        if isinstance(op, (ast.FloorDiv, ast.Mod)):
            if m.checks is not None:
                m.checks.append((y != 0, "ZeroDivisionError", node))
            # z3 div/mod are Euclidean (0 <= mod < |y|); Python floors.  Convert.
            q = If(y > 0, x / y, -((-x) / (-y)) if False else self.floordiv(x, y))
            if isinstance(op, ast.FloorDiv):
                return sv_int(self.floordiv(x, y))
            return sv_int(x - y * self.floordiv(x, y))
        raise OutOfSubset(f"binary op {type(op).__name__}")
    E.pev_BinOp = pev_BinOp

    def floordiv(self, x, y):
        # Python floor division from SMT-LIB Euclidean div: for y>0 they agree; for y<0: floor(x/y) = -ceil(x/-y)... use definition
        # q = x div y (Euclid, 0 <= x - y*q < |y|).  If y < 0 and remainder != 0 then floor = q - 1... check: x=7,y=-2: euclid q=-3 (7 = -2*-3 + 1), floor(-3.5) = -4 = q-1.  x=-7,y=-2: euclid q=4 (-7 = -2*4 + 1), floor(3.5)=3 = q-1.
        q = x / y
        r = x - y * q
        return If(And(y < 0, r != 0), q - 1, q)
    E.floordiv = floordiv

    def norm_index(self, i, n):
        si = simplify(i)
        try:
            v = si.as_long()
            return si if v >= 0 else si + n
        except Exception:
            return If(i < 0, i + n, i)
    E.norm_index = norm_index

    def clamp_slice(self, lo, hi, n):
        """Python slice bounds (step 1) -> (a, b) with 0<=a<=b'<=n where b' = max(a,b)"""
        if lo is None:
            a = IntVal(0)
        else:
            a = If(lo < 0, If(lo + n < 0, IntVal(0), lo + n), If(lo > n, n, lo))
        if hi is None:
            b = n
        else:
            b = If(hi < 0, If(hi + n < 0, IntVal(0), hi + n), If(hi > n, n, hi))
        return a, If(b < a, a, b)
    E.clamp_slice = clamp_slice

    def pev_Subscript(self, node, st, m):
        sl = node.slice
        # hex(n)[2:]  -> the hex digits of n
        if (isinstance(node.value, ast.Call) and isinstance(node.value.func, ast.Name) and node.value.func.id == "hex" and isinstance(sl, ast.Slice)
                and isinstance(sl.lower, ast.Constant) and sl.lower.value == 2 and sl.upper is None):
            n = self.as_int(self.pev(node.value.args[0], st, m))
            return SV("v", L.hexstr(n), "str")
        base = self.pev(node.value, st, m)
        if self.is_str(base) and isinstance(sl, ast.Slice) and sl.step is None:
            n = L.strlen(self.to_v(base))
            lo = self.as_int(self.pev(sl.lower, st, m)) if sl.lower is not None else None
            hi = self.as_int(self.pev(sl.upper, st, m)) if sl.upper is not None else None
            a_, b_ = self.clamp_slice(lo, hi, n)
            return SV("v", L.sslice(self.to_v(base), a_, b_), "str")
        if isinstance(sl, ast.Slice):
            if sl.step is not None:
                raise OutOfSubset("extended slice read")
            s = self.as_seq(base, st)
            n = L.slen(s)
            lo = self.as_int(self.pev(sl.lower, st, m)) if sl.lower is not None else None
            hi = self.as_int(self.pev(sl.upper, st, m)) if sl.upper is not None else None
            a, b = self.clamp_slice(lo, hi, n)
            return SV("seq", L.slc(s, a, b))
        idx = self.pev(sl, st, m)
        if base.kind == "tuple" and idx.kind == "int":
            iv = simplify(idx.t)
            try:
                k = iv.as_long()
                return base.items[k]
            except Exception:
                pass
        if base.kind == "v" and is_dict_hint(base.hint):
            k = self.to_v(idx)
            if m.checks is not None:
                m.checks.append((L.mem(self.hget(st, "$dkeys", base.t), k), "KeyError", node))
            vt = self.c.types.get("values:" + ast.unparse(node.value), self.dict_value_type(node.value, base))
            kind, hint = type_hint(vt)
            val = Select(self.hget(st, "$dval", base.t), k)
            if kind == "int":
                return SV("int", L.iunbox(val))
            return SV("v", val, hint)
        if base.kind == "v" and base.hint == "ddset" and m.spec:
            return SV("set", Select(self.hget(st, "$dd", base.t), self.to_v(idx)))
        if self.is_listlike(base) or (base.kind == "v" and base.hint in (None, "tupleval")) or (base.kind == "v" and base.hint in CLASSES and CLASSES[base.hint].view):
            s = self.as_seq(base, st)
            n = L.slen(s)
            i = self.as_int(idx)
            j = i if (idx.kind == "int" and idx.hint == "nonneg") else self.norm_index(i, n)
            if m.checks is not None:
                m.checks.append((And(0 <= j, j < n), "IndexError", node))
            et = self.elem_type(node.value, base)
            val = L.at(s, j)
            kind, hint = type_hint(et)
            if kind == "int":
                return SV("int", L.iunbox(val))
            return SV("v", val, hint)
        raise OutOfSubset(f"subscript of {base}")
    E.pev_Subscript = pev_Subscript

    def elem_type(self, node, base):
        txt = ast.unparse(node)
        return self.types.get("elems:" + txt, "v")
    E.elem_type = elem_type

    def dict_value_type(self, node, base):
        return "v"
    E.dict_value_type = dict_value_type

    def pev_Lambda(self, node, st, m):
        return SV("py", py=("lambda", node, dict(st.env)))
    E.pev_Lambda = pev_Lambda

    def pev_JoinedStr(self, node, st, m):
        return SV("py", py="<fstring>")
    E.pev_JoinedStr = pev_JoinedStr

    def pev_GeneratorExp(self, node, st, m):
        return SV("py", py=("genexp", node))
    E.pev_GeneratorExp = pev_GeneratorExp

    def pev_ListComp(self, node, st, m):
        """pure filter/map comprehension over one sequence: [elt for x in S if P(x)]"""
        if len(node.generators) != 1:
            raise OutOfSubset("nested comprehension")
        g = node.generators[0]
        src = self.pev(g.iter, st, m)
        s = self.as_seq(src, st)
        if not isinstance(g.target, ast.Name):
            raise OutOfSubset("comprehension target")
        x = Const("cx", V)
        et = self.elem_type(g.iter, src)
        kind, hint = type_hint(et)
        xsv = SV("v", x, hint)
        m2 = m.sub(dict(m.binds, **{g.target.id: xsv}))
        if not (isinstance(node.elt, ast.Name) and node.elt.id == g.target.id):
            raise OutOfSubset("mapping comprehension")
        if g.ifs:
            from z3 import substitute
            conds = [self.truth(self.pev(c, st, m2), st) for c in g.ifs]
            body = And(*conds) if len(conds) > 1 else conds[0]
            P = self.def_set(lambda y: substitute(body, (x, y)), m.under)
            return SV("seq", L.filt(P, s))
        return SV("seq", s)
    E.pev_ListComp = pev_ListComp

    # --------------------------------------------------------------- pure calls / spec functions
    def pev_Call(self, node, st, m):
        f = node.func
        txt = ast.unparse(f)
        args = node.args
        if txt in self.c.callees:
            tgt = self.callee_target(txt)[0]
            if tgt == "identity":
                return self.pev(args[-1], st, m)
            if tgt == "id":
                return sv_int(L.idof(self.to_v(self.pev(args[0], st, m))))
            if tgt.startswith("pure:"):
                return self.apply_pure(tgt[5:], [self.pev(a, st, m) for a in args], st)
            if tgt.startswith("subst:"):
                return self.pev(ast.parse(tgt[6:], mode="eval").body, st, m)
        if txt in ("cython.cast", "typing.cast"):
            return self.pev(args[1], st, m)
        if isinstance(f, ast.Name):
            n = f.id
            if n.startswith("pure_"):
                return self.apply_pure(n[5:], [self.pev(a, st, m) for a in args], st)
            h = getattr(self, "sf_" + n, None)
            if h is not None and (n in SPEC_FUNCS or n in PURE_BUILTINS):
                return h(node, st, m)
            sv = st.env.get(n) or m.binds.get(n)
            if sv is not None and sv.hint == "fn":
                return self.apply_fn(sv, [self.pev(a, st, m) for a in args])
            if m.spec and n in ("list", "set"):
                a = self.pev(args[0], st, m) if args else None
                if n == "list":
                    return SV("seq", self.as_seq(a, st) if a is not None else L.sempty)
                return SV("set", self.as_set(a, st) if a is not None else K(V, False))
        if isinstance(f, ast.Attribute):
            ff = self.fn_field(f, st)
            if ff is not None:
                return self.apply_fn(ff, [self.pev(a, st, m) for a in args])
            recv = self.pev(f.value, st, m)
            h = getattr(self, "pm_" + f.attr, None)
            if h is not None:
                return h(recv, [self.pev(a, st, m) for a in args], node, st, m)
        raise OutOfSubset(f"call {txt} in pure position")
    E.pev_Call = pev_Call

    def apply_fn(self, fsv, args):
        n = len(args)
        key = ("apply", n)
        if key not in self.apply_fns:
            self.apply_fns[key] = Function(f"apply{n}", *([V] * (n + 1)), V)
        self.assumptions.add("callables passed in (sub-evaluators, key functions, creators) are pure and deterministic: modelled as an uninterpreted function of (callable, arguments)")
        return SV("v", self.apply_fns[key](fsv.t, *[self.to_v(a) for a in args]), None)
    E.apply_fn = apply_fn

    def apply_pure(self, name, args, st):
        key = ("pure", name, len(args))
        if key not in self.apply_fns:
            self.apply_fns[key] = Function(f"pure_{name}", *([V] * len(args)), V)
        return SV("v", self.apply_fns[key](*[self.to_v(a) for a in args]), self.c.types.get("ret:" + name))
    E.apply_pure = apply_pure

    # builtins (pure)
    def sf_len(self, node, st, m):
        a = self.pev(node.args[0], st, m)
        if a.kind == "py" and isinstance(a.py, str):
            return sv_int(len(a.py))
        if a.kind == "v" and a.hint == "str":
            return sv_int(L.strlen(a.t))
        if a.kind == "tuple":
            return sv_int(len(a.items))
        if a.kind == "v" and is_dict_hint(a.hint):
            return sv_int(L.slen(self.hget(st, "$dkeys", a.t)))
        if self.is_setlike(a):
            return sv_int(L.slen(self.set_order(self.as_set(a, st))))
        if a.kind == "v" and a.hint in CLASSES and not CLASSES[a.hint].isa and not CLASSES[a.hint].view:
            raise OutOfSubset("len() through __len__")
        return sv_int(L.slen(self.as_seq(a, st)))
    E.sf_len = sf_len

    def sf_bool(self, node, st, m):
        return sv_bool(self.truth(self.pev(node.args[0], st, m), st))
    E.sf_bool = sf_bool
    E.sf_truth = sf_bool

    def sf_tuple(self, node, st, m):
        a = self.pev(node.args[0], st, m)
        return SV("seq", self.as_seq(a, st))
    E.sf_tuple = sf_tuple

    def sf_id(self, node, st, m):
        a = self.pev(node.args[0], st, m)
        return sv_int(L.idof(self.to_v(a)))
    E.sf_id = sf_id
    E.sf_idof = sf_id

    def sf_isinstance(self, node, st, m):
        a = self.pev(node.args[0], st, m)
        c = self.pev(node.args[1], st, m)
        return sv_bool(self.isinstance_(a, c, st))
    E.sf_isinstance = sf_isinstance
    E.sf_isinst = sf_isinstance

    def isinstance_(self, a, c, st):
        if c.kind == "tuple":
            return Or(*[self.isinstance_(a, x, st) for x in c.items])
        if c.kind == "py" and isinstance(c.py, tuple) and c.py[0] in ("class", "attr"):
            name = c.py[-1]
            # static knowledge from hints
            if a.kind in ("int",):
                return BoolVal(name in ("int", "object"))
            if a.kind == "bool":
                return BoolVal(name in ("int", "bool", "object"))
            if a.kind in ("seq", "tuple"):
                return BoolVal(name in ("tuple", "object"))
            if a.kind == "v" and a.hint is not None and a.hint not in ("iterable",):
                h = a.hint
                if h == "none":
                    return BoolVal(False)
                hs = {h}
                if h in CLASSES:
                    # ancestors
                    stack = [h]
                    while stack:
                        cc = stack.pop()
                        hs.add(cc)
                        if cc in CLASSES:
                            stack.extend(CLASSES[cc].bases)
                            if CLASSES[cc].isa:
                                hs.add(CLASSES[cc].isa)
                if h == "opt":
                    pass
                else:
                    return BoolVal(name in hs or name == "object")
            ids = [cls_id(n) for n in subclasses_of(name)]
            return Or(*[L.tyid(self.to_v(a)) == i for i in ids])
        raise OutOfSubset(f"isinstance against {c}")
    E.isinstance_ = isinstance_

    def sf_hasattr(self, node, st, m):
        a = self.pev(node.args[0], st, m)
        nm = self.pev(node.args[1], st, m)
        if nm.kind == "py" and isinstance(nm.py, str) and a.kind == "v" and a.hint in CLASSES:
            fty = self.lookup_field_type(CLASSES[a.hint], nm.py)
            if fty is not None and fty.startswith("maybe:"):
                return sv_bool(self.hget(st, nm.py, a.t) != L.sentinel("deleted_attr"))
            if fty is not None:
                return sv_bool(True)
        if nm.kind == "py" and nm.py == "__len__":
            if a.kind in ("seq", "tuple", "set"):
                return sv_bool(True)
            if a.kind == "v" and a.hint in ("list", "set", "dict", "deque", "frozenset", "sized"):
                return sv_bool(True)
            if a.kind == "v" and a.hint in CLASSES and CLASSES[a.hint].isa:
                return sv_bool(True)
            if a.kind == "v" and a.hint in ("iterator",):
                return sv_bool(False)
        raise OutOfSubset(f"hasattr {ast.unparse(node)}")
    E.sf_hasattr = sf_hasattr

    def sf_getattr(self, node, st, m):
        """getattr(x, "const", default): an uninterpreted attribute lookup per attribute name (the class attribute is not
        modelled as a heap field: it is assumed not to change during the call)"""
        if len(node.args) != 3:
            raise OutOfSubset("getattr with 2 arguments")
        x = self.pev(node.args[0], st, m)
        nm = self.pev(node.args[1], st, m)
        if nm.kind != "py" or not isinstance(nm.py, str):
            raise OutOfSubset("getattr with a computed name")
        if x.kind == "v" and x.hint in CLASSES and self.lookup_field_type(CLASSES[x.hint], nm.py) is not None:
            self.assumptions.add(f"getattr(obj, {nm.py!r}, default) on a declared slot/field reads the field (the attribute is assumed to be set)")
            return self.read_field(st, x, nm.py, m)
        f = Function("getattr_" + nm.py, V, V)
        self.assumptions.add(f"getattr(obj, {nm.py!r}, default) is a pure lookup of a class attribute that does not change during the call")
        return SV("v", f(self.to_v(x)), None)
    E.sf_getattr = sf_getattr

    def sf_hex(self, node, st, m):
        raise OutOfSubset("hex(n) is only modelled in the form hex(n)[2:]")
    E.sf_hex = sf_hex

    def sf_min(self, node, st, m):
        a, b = [self.as_int(self.pev(x, st, m)) for x in node.args]
        return sv_int(If(a <= b, a, b))
    E.sf_min = sf_min

    def sf_max(self, node, st, m):
        a, b = [self.as_int(self.pev(x, st, m)) for x in node.args]
        return sv_int(If(a >= b, a, b))
    E.sf_max = sf_max

    def sf_abs(self, node, st, m):
        a = self.as_int(self.pev(node.args[0], st, m))
        return sv_int(If(a >= 0, a, -a))
    E.sf_abs = sf_abs

    def sf_int(self, node, st, m):
        return sv_int(self.as_int(self.pev(node.args[0], st, m)))
    E.sf_int = sf_int

    def sf_iter(self, node, st, m):
        a = self.pev(node.args[0], st, m)
        return SV("seq", self.as_seq(a, st))
    E.sf_iter = sf_iter

    # ---- spec functions
    def sf_implies(self, node, st, m):
        a, b = node.args
        return sv_bool(Implies(self.truth(self.pev(a, st, m), st), self.truth(self.pev(b, st, m), st)))
    E.sf_implies = sf_implies

    def sf_ite(self, node, st, m):
        c, a, b = node.args
        return self.ite_sv(self.truth(self.pev(c, st, m), st), self.pev(a, st, m), self.pev(b, st, m), st)
    E.sf_ite = sf_ite

    def sf_old(self, node, st, m):
        if m.old is None:
            if m.binds.get("$in_old") is not None:
                return self.pev(node.args[0], st, m)       # old(old(e)) == old(e)
            raise ContractError("old() outside a postcondition")
        return self.pev(node.args[0], m.old, Mode(True, None, None, m.result, dict(m.binds, **{"$in_old": SV("py", py=True)}), m.under))
    E.sf_old = sf_old

    def sf_entry(self, node, st, m):
        """entry(e): e evaluated in the state at entry of the loop whose invariant is being stated"""
        es = m.binds.get("$entry")
        if es is None:
            raise ContractError("entry() outside a loop invariant")
        return self.pev(node.args[0], es.py, Mode(True, m.old, None, m.result, m.binds, m.under))
    E.sf_entry = sf_entry

    def sf_oldfield(self, node, st, m):
        """oldfield(obj, "f"): field f in the PRE-state of the object that `obj` denotes NOW"""
        base = self.pev(node.args[0], st, m)
        name = self.pev(node.args[1], st, m).py
        if m.old is None:
            raise ContractError("oldfield() outside a postcondition")
        return self.read_field(m.old, base, name, m)
    E.sf_oldfield = sf_oldfield

    def sf_called(self, node, st, m):
        """called("callee text"): did that (contract) call happen on this path"""
        label = self.pev(node.args[0], st, m).py
        return sv_bool("$after:" + label in st.ghost)
    E.sf_called = sf_called

    def sf_attempted(self, node, st, m):
        """attempted("callee text"): that (contract) call was made on this path -- whether it returned or raised"""
        label = self.pev(node.args[0], st, m).py
        return sv_bool("$tried:" + label in st.ghost)
    E.sf_attempted = sf_attempted

    def sf_after(self, node, st, m):
        """after("callee text", e): e evaluated in the state right after that (contract) call returned on this path;
        on a path where the call did not happen: in the current state"""
        label = self.pev(node.args[0], st, m).py
        ss = st.ghost.get("$after:" + label)
        base = ss if ss is not None else st
        # parameters keep their entry values
        env = dict(base.env)
        for n_, v_ in st.env.items():
            env.setdefault(n_, v_)
        return self.pev(node.args[1], base.copy(env=env), Mode(True, m.old, None, m.result, m.binds, m.under))
    E.sf_after = sf_after

    def sf_call(self, node, st, m):
        f = self.pev(node.args[0], st, m)
        return self.apply_fn(f, [self.pev(a, st, m) for a in node.args[1:]])
    E.sf_call = sf_call

    def quant(self, node, st, m, universal):
        g = node.args[0]
        if not isinstance(g, ast.GeneratorExp) or len(g.generators) != 1:
            raise ContractError("all/any need one generator")
        gen = g.generators[0]
        tgt = gen.target
        it = gen.iter
        # range(a,b) / rng(a,b): integer quantifier
        if isinstance(it, ast.Call) and isinstance(it.func, ast.Name) and it.func.id in ("range", "rng"):
            bounds = [self.as_int(self.pev(a, st, m)) for a in it.args]
            lo, hi = (IntVal(0), bounds[0]) if len(bounds) == 1 else (bounds[0], bounds[1])
            j = self.fresh(tgt.id, IntSort())
            lo_s = simplify(lo)
            nonneg = z3_is_int(lo_s) and hasattr(lo_s, "as_long") and str(lo_s).lstrip("-").isdigit() and lo_s.as_long() >= 0
            m2 = m.sub(dict(m.binds, **{tgt.id: SV("int", j, "nonneg" if nonneg else None)}))
            guard = And(lo <= j, j < hi, *[self.truth(self.pev(c, st, m2), st) for c in gen.ifs])
            body = self.truth(self.pev(g.elt, st, m2), st)
            return sv_bool(ForAll([j], Implies(guard, body), auto=True) if universal else Exists([j], And(guard, body)))
        src = self.pev(it, st, m)
        if self.is_setlike(src) or (src.kind == "v" and src.hint == "ddset"):
            sset = self.as_set(src, st) if src.hint != "ddset" else self.hget(st, "$ddkeys", src.t)
            x = self.fresh(tgt.id if isinstance(tgt, ast.Name) else "qx", V)
            binds = self.bind_target(tgt, SV("v", x, self.types.get("elems:" + ast.unparse(it))), m)
            m2 = m.sub(binds)
            guard = And(Select(sset, x), *[self.truth(self.pev(c, st, m2), st) for c in gen.ifs])
            body = self.truth(self.pev(g.elt, st, m2), st)
            return sv_bool(ForAll([x], Implies(guard, body), patterns=[Select(sset, x)], auto=True) if universal else Exists([x], And(guard, body)))
        s = self.as_seq(src, st)
        k = self.fresh("qi", IntSort())
        et = self.elem_type(it, src)
        kind, hint = type_hint(et)
        el = SV("int", L.iunbox(L.at(s, k))) if kind == "int" else SV("v", L.at(s, k), hint)
        binds = self.bind_target(tgt, el, m)
        m2 = m.sub(binds)
        guard = And(0 <= k, k < L.slen(s), *[self.truth(self.pev(c, st, m2), st) for c in gen.ifs])
        body = self.truth(self.pev(g.elt, st, m2), st)
        return sv_bool(ForAll([k], Implies(guard, body), patterns=[L.at(s, k)], auto=True) if universal else Exists([k], And(guard, body)))
    E.quant = quant

    def bind_target(self, tgt, el, m):
        binds = dict(m.binds)
        if isinstance(tgt, ast.Name):
            binds[tgt.id] = el
        elif isinstance(tgt, ast.Tuple):
            sq = L.sunbox(el.t)
            for i, e in enumerate(tgt.elts):
                binds[e.id] = SV("v", L.at(sq, i), None)
        else:
            raise ContractError("quantifier target")
        return binds
    E.bind_target = bind_target

    def sf_all(self, node, st, m):
        return self.quant(node, st, m, True)
    E.sf_all = sf_all

    def sf_any(self, node, st, m):
        return self.quant(node, st, m, False)
    E.sf_any = sf_any

    def sf_forall(self, node, st, m):
        lam = node.args[0]
        names = [a.arg for a in lam.args.args]
        vs = [self.fresh(n, V) for n in names]
        m2 = m.sub(dict(m.binds, **{n: SV("v", v, type_hint(self.types[n])[1] if n in self.types else None) for n, v in zip(names, vs)}))
        return sv_bool(ForAll(vs, self.truth(self.pev(lam.body, st, m2), st), auto=True))
    E.sf_forall = sf_forall

    def sf_exists(self, node, st, m):
        lam = node.args[0]
        names = [a.arg for a in lam.args.args]
        vs = [self.fresh(n, V) for n in names]
        m2 = m.sub(dict(m.binds, **{n: SV("v", v, None) for n, v in zip(names, vs)}))
        return sv_bool(Exists(vs, self.truth(self.pev(lam.body, st, m2), st)))
    E.sf_exists = sf_exists

    def sf_no_dups(self, node, st, m):
        return sv_bool(L.nodup(self.as_seq(self.pev(node.args[0], st, m), st)))
    E.sf_no_dups = sf_no_dups

    def sf_seq(self, node, st, m):
        return SV("seq", self.as_seq(self.pev(node.args[0], st, m), st))
    E.sf_seq = sf_seq

    def sf_setof(self, node, st, m):
        return SV("set", self.as_set(self.pev(node.args[0], st, m), st))
    E.sf_setof = sf_setof

    def sf_cat(self, node, st, m):
        a, b = [self.as_seq(self.pev(x, st, m), st) for x in node.args]
        return SV("seq", L.cat(a, b))
    E.sf_cat = sf_cat

    def sf_flat(self, node, st, m):
        return SV("seq", L.flat(self.as_seq(self.pev(node.args[0], st, m), st)))
    E.sf_flat = sf_flat

    def sf_rev(self, node, st, m):
        return SV("seq", L.rev(self.as_seq(self.pev(node.args[0], st, m), st)))
    E.sf_rev = sf_rev

    def sf_addall(self, node, st, m):
        a, b = [self.as_seq(self.pev(x, st, m), st) for x in node.args]
        return SV("seq", L.addall(a, b))
    E.sf_addall = sf_addall

    def sf_prefix(self, node, st, m):
        s = self.as_seq(self.pev(node.args[0], st, m), st)
        n = self.as_int(self.pev(node.args[1], st, m))
        return SV("seq", L.slc(s, IntVal(0), n))
    E.sf_prefix = sf_prefix

    def sf_is_tuple(self, node, st, m):
        a = self.pev(node.args[0], st, m)
        n = self.as_int(self.pev(node.args[1], st, m))
        v = self.to_v(a)
        return sv_bool(And(L.is_tup(v), L.slen(L.sunbox(v)) == n))
    E.sf_is_tuple = sf_is_tuple

    def sf_pair(self, node, st, m):
        a, b = [self.to_v(self.pev(x, st, m)) for x in node.args]
        return SV("v", L.sbox(L.app(L.app(L.sempty, a), b)), "tupleval")
    E.sf_pair = sf_pair

    def sf_mapfn(self, node, st, m):
        """mapfn(f, s) = [f(x) for x in s]  (f a pure callable, see apply_fn)"""
        f = self.pev(node.args[0], st, m)
        sq = self.as_seq(self.pev(node.args[1], st, m), st)
        memo = self.__dict__.setdefault("_mapfn_memo", {})
        key = f.t.get_id()
        if key not in memo:
            M = self.fresh("fnmap", MapS)
            x = Const("x", V)
            ap = self.apply_fn(f, [SV("v", x, None)]).t
            self.extra_axioms.append(ForAll([x], Select(M, x) == ap, patterns=[Select(M, x), ap]))
            memo[key] = (M, f.t)
        return SV("seq", L.smap(memo[key][0], sq))
    E.sf_mapfn = sf_mapfn

    def sf_all_in(self, node, st, m):
        """all_in(S, p): every element of the sequence p is a member of the set S (predicate chain_in with an induction axiom)"""
        S = self.as_set(self.pev(node.args[0], st, m), st)
        p = self.as_seq(self.pev(node.args[1], st, m), st)
        return sv_bool(L.chain_in(S, p))
    E.sf_all_in = sf_all_in

    def sf_tagall(self, node, st, m):
        """tagall(tag, s) = [pair(tag, x) for x in s]"""
        tag = self.to_v(self.pev(node.args[0], st, m))
        sq = self.as_seq(self.pev(node.args[1], st, m), st)
        memo = self.__dict__.setdefault("_tag_memo", {})
        key = tag.get_id()
        if key not in memo:
            M = self.fresh("tagmap", MapS)
            x = Const("x", V)
            self.extra_axioms.append(ForAll([x], Select(M, x) == L.sbox(L.app(L.app(L.sempty, tag), x)), patterns=[Select(M, x)]))
            memo[key] = (M, tag)
        return SV("seq", L.smap(memo[key][0], sq))
    E.sf_tagall = sf_tagall

    def sf_listof(self, node, st, m):
        """listof(x): x read as a reference to a list object"""
        a = self.pev(node.args[0], st, m)
        return SV("v", self.to_v(a), "list")
    E.sf_listof = sf_listof

    def sf_intof(self, node, st, m):
        a = self.pev(node.args[0], st, m)
        return SV("int", self.as_int(a))
    E.sf_intof = sf_intof

    def sf_contents(self, node, st, m):
        a = self.pev(node.args[0], st, m)
        return SV("seq", self.as_seq(a, st))
    E.sf_contents = sf_contents

    def sf_keys(self, node, st, m):
        a = self.pev(node.args[0], st, m)
        return SV("seq", self.hget(st, "$dkeys", a.t))
    E.sf_keys = sf_keys

    def sf_values(self, node, st, m):
        a = self.pev(node.args[0], st, m)
        return SV("seq", L.smap(self.hget(st, "$dval", a.t), self.hget(st, "$dkeys", a.t)))
    E.sf_values = sf_values

    def sf_dget(self, node, st, m):
        a = self.pev(node.args[0], st, m)
        k = self.to_v(self.pev(node.args[1], st, m))
        return SV("v", Select(self.hget(st, "$dval", self.to_v(a)), k), self.types.get("values:" + ast.unparse(node.args[0])))
    E.sf_dget = sf_dget

    def sf_dhas(self, node, st, m):
        a = self.pev(node.args[0], st, m)
        k = self.to_v(self.pev(node.args[1], st, m))
        return sv_bool(L.mem(self.hget(st, "$dkeys", self.to_v(a)), k))
    E.sf_dhas = sf_dhas

    def sf_typeis(self, node, st, m):
        a = self.pev(node.args[0], st, m)
        c = self.pev(node.args[1], st, m)
        return sv_bool(L.tyid(self.to_v(a)) == cls_id(c.py[-1]))
    E.sf_typeis = sf_typeis

    def sf_fresh(self, node, st, m):
        """fresh(e): the object e denotes now was not allocated in the pre-state"""
        a = self.pev(node.args[0], st, m)
        if m.old is None:
            raise ContractError("fresh() outside a postcondition")
        return sv_bool(Not(Select(m.old.alloc, self.to_v(a))))
    E.sf_fresh = sf_fresh

    def sf_allocated(self, node, st, m):
        a = self.pev(node.args[0], st, m)
        return sv_bool(Select(st.alloc, self.to_v(a)))
    E.sf_allocated = sf_allocated

    def sf_ghost(self, node, st, m):
        name = self.pev(node.args[0], st, m).py
        g = st.ghost.get(name)
        if g is None:
            raise ContractError(f"ghost {name} undefined")
        return g
    E.sf_ghost = sf_ghost

    def sf_filt(self, node, st, m):
        lam, sq = node.args
        s = self.as_seq(self.pev(sq, st, m), st)
        x = Const("fx", V)
        from z3 import substitute
        nm = lam.args.args[0].arg
        m2 = m.sub(dict(m.binds, **{nm: SV("v", x, None)}))
        body = self.truth(self.pev(lam.body, st, m2), st)
        P = self.def_set(lambda y: substitute(body, (x, y)), m.under)
        return SV("seq", L.filt(P, s))
    E.sf_filt = sf_filt

    def sf_index(self, node, st, m):
        s = self.as_seq(self.pev(node.args[0], st, m), st)
        x = self.to_v(self.pev(node.args[1], st, m))
        return sv_int(L.pos(s, x))
    E.sf_index = sf_index

    def sf_count(self, node, st, m):
        s = self.as_seq(self.pev(node.args[0], st, m), st)
        x = self.to_v(self.pev(node.args[1], st, m))
        return sv_int(L.cnt(s, x))
    E.sf_count = sf_count

    # ---- pure methods on containers
    def pm_get(self, recv, args, node, st, m):
        if recv.kind == "v" and is_dict_hint(recv.hint):
            k = self.to_v(args[0])
            dflt = args[1] if len(args) > 1 else NONE
            has = L.mem(self.hget(st, "$dkeys", recv.t), k)
            vt = self.types.get("values:" + ast.unparse(node.func.value), "v")
            kind, hint = type_hint(vt)
            val = SV("v", Select(self.hget(st, "$dval", recv.t), k), hint)
            return self.ite_sv(has, val, dflt, st)
        raise OutOfSubset(f".get on {recv}")
    E.pm_get = pm_get

    def pm_isdisjoint(self, recv, args, node, st, m):
        a, b = self.as_set(recv, st), self.as_set(args[0], st)
        x = self.fresh("w", V)
        return sv_bool(ForAll([x], Not(And(Select(a, x), Select(b, x))), patterns=[Select(a, x), Select(b, x)]))
    E.pm_isdisjoint = pm_isdisjoint

    def _pm_setop(self, recv, args, st, m, f):
        sa, sb = self.as_set(recv, st), self.as_set(args[0], st)
        return SV("set", self.def_set(lambda x: f(Select(sa, x), Select(sb, x)), m.under))

    def pm_intersection(self, recv, args, node, st, m):
        return self._pm_setop(recv, args, st, m, lambda p, q: And(p, q))
    E.pm_intersection = pm_intersection

    def pm_union(self, recv, args, node, st, m):
        return self._pm_setop(recv, args, st, m, lambda p, q: Or(p, q))
    E.pm_union = pm_union

    def pm_difference(self, recv, args, node, st, m):
        return self._pm_setop(recv, args, st, m, lambda p, q: And(p, Not(q)))
    E.pm_difference = pm_difference

    def pm_symmetric_difference(self, recv, args, node, st, m):
        return self._pm_setop(recv, args, st, m, lambda p, q: p != q)
    E.pm_symmetric_difference = pm_symmetric_difference
    E._pm_setop = _pm_setop

    def pm_issubset(self, recv, args, node, st, m):
        a, b = self.as_set(recv, st), self.as_set(args[0], st)
        x = self.fresh("w", V)
        return sv_bool(ForAll([x], Implies(Select(a, x), Select(b, x)), patterns=[Select(a, x)]))
    E.pm_issubset = pm_issubset

    def pm_issuperset(self, recv, args, node, st, m):
        a, b = self.as_set(recv, st), self.as_set(args[0], st)
        x = self.fresh("w", V)
        return sv_bool(ForAll([x], Implies(Select(b, x), Select(a, x)), patterns=[Select(b, x)]))
    E.pm_issuperset = pm_issuperset

    def pm_index(self, recv, args, node, st, m):
        s = self.as_seq(recv, st)
        x = self.to_v(args[0])
        if m.checks is not None:
            m.checks.append((L.mem(s, x), "ValueError", node))
        return sv_int(L.pos(s, x))
    E.pm_index = pm_index

    def pm_values(self, recv, args, node, st, m):
        if recv.kind == "v" and is_dict_hint(recv.hint):
            return SV("seq", L.smap(self.hget(st, "$dval", recv.t), self.hget(st, "$dkeys", recv.t)))
        raise OutOfSubset(".values()")
    E.pm_values = pm_values

    def pm_keys(self, recv, args, node, st, m):
        if recv.kind == "v" and is_dict_hint(recv.hint):
            return SV("set", L.sset(self.hget(st, "$dkeys", recv.t)))
        raise OutOfSubset(".keys()")
    E.pm_keys = pm_keys


_patch_engine()


# ====================================================================== CPS execution (code)
def _patch_exec():
    E = Exec

    def oblige(self, st, goal, kind, node, extra=""):
        ln = self.rel_line(node) if node is not None else 0
        name = f"{self.c.qualname}/{kind}@L{ln}{extra}"
        self.obls.append(Obligation(name, st.pc, goal, kind, ln, tuple(st.notes)))
    E.oblige = oblige

    def branch_checks(self, checks, st, ctx, k):
        """implicit-exception conditions recorded during a pure evaluation: the failing side raises"""
        for (ok, excname, node) in checks:
            if is_true(simplify(ok)) or self.quick_unsat(st, Not(ok)):
                continue
            bad = st.assume(Not(ok))
            bad = bad.copy(notes=bad.notes + (f"L{self.rel_line(node)}:{excname}",))
            ctx.exc(excname, bad, node)
            st = st.assume(ok)
        k(st)
    E.branch_checks = branch_checks

    def ev(self, node, st, ctx, k):
        """evaluate expression in code position; k(sv, st)"""
        if (type(node) is ast.Compare and len(node.ops) == 1 and isinstance(node.ops[0], (ast.In, ast.NotIn)) and self.is_pure(node.comparators[0], st)
                and self.is_pure(node.left, st)):
            # `x in obj` / `x not in obj` where obj's class puts __contains__ under contract: a call of that method
            try:
                c = self.pev(node.comparators[0], st, Mode(False, None, None))
            except OutOfSubset:
                c = None
            if (c is not None and c.kind == "v" and c.hint in CLASSES and "__contains__" in CLASSES[c.hint].methods
                    and not self.is_setlike(c) and not self.is_listlike(c) and not is_dict_hint(c.hint)):
                call = ast.Call(func=ast.Attribute(value=node.comparators[0], attr="__contains__", ctx=ast.Load()), args=[node.left], keywords=[])
                ast.copy_location(call, node)
                ast.fix_missing_locations(call)
                neg = isinstance(node.ops[0], ast.NotIn)
                def got_in(r, st2):
                    tv = self.truth(r, st2)
                    k(sv_bool(Not(tv) if neg else tv), st2)
                return self.ev_contract_call(FUNCS[CLASSES[c.hint].methods["__contains__"]], node.comparators[0], call, st, ctx, got_in)
        if (type(node) is ast.Subscript and isinstance(node.ctx, ast.Load) and not isinstance(node.slice, ast.Slice) and self.is_pure(node.value, st)
                and self.is_pure(node.slice, st)):
            # `obj[key]` where obj's class puts __getitem__ under contract: a call of that method
            try:
                c = self.pev(node.value, st, Mode(False, None, None))
            except OutOfSubset:
                c = None
            if (c is not None and c.kind == "v" and c.hint in CLASSES and "__getitem__" in CLASSES[c.hint].methods
                    and not self.is_setlike(c) and not self.is_listlike(c) and not is_dict_hint(c.hint)):
                call = ast.Call(func=ast.Attribute(value=node.value, attr="__getitem__", ctx=ast.Load()), args=[node.slice], keywords=[])
                ast.copy_location(call, node)
                ast.fix_missing_locations(call)
                return self.ev_contract_call(FUNCS[CLASSES[c.hint].methods["__getitem__"]], node.value, call, st, ctx, k)
        if self.is_pure(node, st):
            checks = []
            sv = self.pev(node, st, Mode(False, None, checks))
            return self.branch_checks(checks, st, ctx, lambda st2: k(sv, st2))
        t = type(node)
        if t is ast.Call:
            return self.ev_call(node, st, ctx, k)
        if t is ast.Attribute and self.is_pure(node.value, st) and HAS_PROP_FIELDS() and self.prop_key(node, st) is not None:
            empty = ast.Call(func=node, args=[], keywords=[])
            ast.copy_location(empty, node)
            return self.ev_contract_call(FUNCS[self.prop_key(node, st)], node.value, empty, st, ctx, k)
        if t is ast.BoolOp:
            return self.ev_boolop(node, 0, st, ctx, k)
        if t is ast.IfExp:
            def after_test(c, st2):
                tv = self.truth(c, st2)
                self.fork(tv, st2, lambda s: self.ev(node.body, s, ctx, k), lambda s: self.ev(node.orelse, s, ctx, k), node)
            return self.ev(node.test, st, ctx, after_test)
        if t in (ast.ListComp, ast.SetComp, ast.DictComp):
            return self.ev_comp(node, st, ctx, k)
        if t is ast.List or t is ast.Set or t is ast.Dict:
            return self.ev_display(node, st, ctx, k)
        if t is ast.Subscript:
            base = node.value
            if isinstance(base, ast.Name) and base.id in st.env and st.env[base.id].hint == "ddset":
                def got_key(ksv, st2):
                    d = st2.env[base.id]
                    kk = self.to_v(ksv)
                    keys = self.hget(st2, "$ddkeys", d.t)
                    st3 = self.hset(st2, "$ddkeys", d.t, Store(keys, kk, True))
                    k(SV("v", kk, "ddslot:" + base.id), st3)
                return self.ev(node.slice, st, ctx, got_key)
        # generic: hoist impure children into temporaries, then evaluate the rebuilt node purely
        return self.hoist(node, st, ctx, k)
    E.ev = ev

    def hoist(self, node, st, ctx, k):
        children = [(f, v) for f, v in ast.iter_fields(node)]
        for fname, val in children:
            cands = val if isinstance(val, list) else [val]
            for idx, c in enumerate(cands):
                if isinstance(c, ast.expr) and not self.is_pure(c, st):
                    def got(sv, st2, fname=fname, idx=idx, val=val):
                        tmp = f"$t{next(self.temp)}"
                        st3 = st2.bind(tmp, sv)
                        new = ast.Name(id=tmp, ctx=ast.Load())
                        ast.copy_location(new, node)
                        clone = type(node)(**{f: v for f, v in ast.iter_fields(node)})
                        ast.copy_location(clone, node)
                        if isinstance(val, list):
                            lst = list(val)
                            lst[idx] = new
                            setattr(clone, fname, lst)
                        else:
                            setattr(clone, fname, new)
                        self.ev(clone, st3, ctx, k)
                    return self.ev(c, st, ctx, got)
        raise OutOfSubset(f"impure expression {type(node).__name__}: {ast.unparse(node)[:70]}")
    E.hoist = hoist

    def ev_boolop(self, node, i, st, ctx, k):
        def got(sv, st2):
            if i == len(node.values) - 1:
                return k(sv, st2)
            tv = self.truth(sv, st2)
            if isinstance(node.op, ast.And):
                self.fork(tv, st2, lambda s: self.ev_boolop(node, i + 1, s, ctx, k), lambda s: k(sv, s), node)
            else:
                self.fork(tv, st2, lambda s: k(sv, s), lambda s: self.ev_boolop(node, i + 1, s, ctx, k), node)
        self.ev(node.values[i], st, ctx, got)
    E.ev_boolop = ev_boolop

    def quick_unsat(self, st, cond):
        """cheap infeasibility test on the quantifier-free part of the path condition (sound: a subset of the hypotheses)"""
        import z3
        qf = [h for h in st.pc if not _has_quant(h)]
        if not qf:
            return False
        sol = z3.Solver()
        sol.set("timeout", 60)
        for h in qf:
            sol.add(h)
        sol.add(cond)
        return sol.check() == z3.unsat
    E.quick_unsat = quick_unsat

    def fork(self, cond, st, kt, kf, node=None, tag=None):
        c = simplify(cond)
        ln = self.rel_line(node) if node is not None else 0
        if not is_true(c) and not is_false(c):
            if self.quick_unsat(st, cond):
                c = BoolVal(False)
            elif self.quick_unsat(st, Not(cond)):
                c = BoolVal(True)
        if not is_false(c):
            s = st.assume(cond) if not is_true(c) else st
            kt(s.copy(notes=s.notes + (f"L{ln}:T",)) if not is_true(c) else s)
        if not is_true(c):
            s = st.assume(Not(cond)) if not is_false(c) else st
            kf(s.copy(notes=s.notes + (f"L{ln}:F",)) if not is_false(c) else s)
    E.fork = fork

    # ------------------------------------------------------------------ allocation
    def alloc_obj(self, st, hint, name="new"):
        r = self.fresh(name, V)
        na = self.fresh("alloc", SetS)
        x = Const("x", V)
        st = st.assume(Not(Select(st.alloc, r)), L.is_ref(r), r != L.None_, Select(na, r),
                       ForAll([x], Implies(Select(st.alloc, x), Select(na, x)), patterns=[Select(st.alloc, x)]),
                       ForAll([x], Implies(Select(na, x), Or(Select(st.alloc, x), x == r)), patterns=[Select(na, x)]))
        st = st.copy(alloc=na)
        if hint in CLASSES:
            st = st.assume(L.tyid(r) == cls_id(hint))
        return SV("v", r, hint), st
    E.alloc_obj = alloc_obj

    def new_list(self, st, seq):
        r, st = self.alloc_obj(st, "list", "lst")
        return r, self.hset(st, "$seq", r.t, seq)
    E.new_list = new_list

    def new_set(self, st, sset):
        r, st = self.alloc_obj(st, "set", "set")
        return r, self.hset(st, "$set", r.t, sset)
    E.new_set = new_set

    def new_dict(self, st, keys=None, vals=None):
        r, st = self.alloc_obj(st, "dict", "dct")
        st = self.hset(st, "$dkeys", r.t, keys if keys is not None else L.sempty)
        if vals is not None:
            st = self.hset(st, "$dval", r.t, vals)
        return r, st
    E.new_dict = new_dict

    def ev_display(self, node, st, ctx, k):
        if isinstance(node, ast.List):
            def build(svs, st2):
                s = L.sempty
                for e in svs:
                    s = L.app(s, self.to_v(e))
                r, st3 = self.new_list(st2, s)
                k(r, st3)
            return self.ev_list(node.elts, st, ctx, build)
        if isinstance(node, ast.Dict) and not node.keys:
            r, st2 = self.new_dict(st)
            return k(r, st2)
        if isinstance(node, ast.Set):
            def build(svs, st2):
                vs = [self.to_v(e) for e in svs]
                r, st3 = self.new_set(st2, self.def_set(lambda x: Or(*[x == v for v in vs])))
                k(r, st3)
            return self.ev_list(node.elts, st, ctx, build)
        raise OutOfSubset(f"display {ast.unparse(node)[:40]}")
    E.ev_display = ev_display

    def ev_list(self, nodes, st, ctx, k, acc=None):
        acc = acc or []
        if not nodes:
            return k(acc, st)
        if isinstance(nodes[0], ast.Starred):
            def got_star(sv, st2):
                if sv.kind != "tuple":
                    raise OutOfSubset("starred argument of unknown length")
                self.ev_list(nodes[1:], st2, ctx, k, acc + list(sv.items))
            return self.ev(nodes[0].value, st, ctx, got_star)
        self.ev(nodes[0], st, ctx, lambda sv, st2: self.ev_list(nodes[1:], st2, ctx, k, acc + [sv]))
    E.ev_list = ev_list

    def comp_overapprox(self, node, st, ctx, k):
        """[f(x) for x in S (if c)]: a fresh list of S's length (at most, with a filter) whose elements are arbitrary values --
        tuples of the displayed arity when f is a tuple display; evaluating f may raise (Exception branch).  Sound
        over-approximation for contracts that do not depend on the elements."""
        if len(node.generators) != 1:
            return False
        g = node.generators[0]
        n_src = None
        try:
            if isinstance(g.iter, ast.Call) and isinstance(g.iter.func, ast.Attribute) and g.iter.func.attr in ("items", "keys", "values") and not g.iter.args:
                d = self.pev(g.iter.func.value, st, Mode(False))
                if d.kind == "v" and is_dict_hint(d.hint):
                    n_src = L.slen(self.hget(st, "$dkeys", d.t))
            if n_src is None and self.is_pure(g.iter, st):
                n_src = L.slen(self.as_seq(self.pev(g.iter, st, Mode(False, None, None)), st))
        except (OutOfSubset, ContractError):
            return False
        if n_src is None:
            return False
        rseq = self.fresh("comp", Sq)
        facts = [L.slen(rseq) <= n_src] if g.ifs else [L.slen(rseq) == n_src]
        if isinstance(node.elt, ast.Tuple):
            i = Int("ci")
            facts.append(ForAll([i], Implies(And(0 <= i, i < L.slen(rseq)), And(L.is_tup(L.at(rseq, i)), L.slen(L.sunbox(L.at(rseq, i))) == len(node.elt.elts))),
                                patterns=[L.at(rseq, i)]))
        self.assumptions.add("mapping comprehensions are over-approximated: a new list of the source's length (at most that, with a filter) with arbitrary "
                             "elements (tuples of the displayed arity); evaluating the element expression may raise")
        simple = isinstance(node.elt, ast.Name) or (isinstance(node.elt, ast.Tuple) and all(isinstance(e, ast.Name) for e in node.elt.elts))
        if not simple or g.ifs:
            ctx.exc("Exception", st.copy(notes=st.notes + (f"L{self.rel_line(node)}:comprehension-raises",)), node)
        r, st2 = self.new_list(st.assume(*facts), rseq)
        k(r, st2)
        return True
    E.comp_overapprox = comp_overapprox

    def ev_comp(self, node, st, ctx, k):
        """comprehensions in code: pure filter form only (allocates the result)"""
        if isinstance(node, ast.ListComp) and len(node.generators) == 1:
            g = node.generators[0]
            if (isinstance(node.elt, ast.Tuple) and isinstance(g.target, ast.Tuple) and len(g.target.elts) == 2 and len(node.elt.elts) == 2
                    and isinstance(g.iter, ast.Call) and isinstance(g.iter.func, ast.Attribute) and g.iter.func.attr == "items"
                    and [e.id for e in node.elt.elts if isinstance(e, ast.Name)] == [e.id for e in g.target.elts if isinstance(e, ast.Name)]):
                d = self.pev(g.iter.func.value, st, Mode(False))
                if d.kind == "v" and is_dict_hint(d.hint):
                    keys = self.hget(st, "$dkeys", d.t)
                    vals = self.hget(st, "$dval", d.t)
                    P = self.dict_filter_pred(g, st, vals)
                    return k(SV("py", py=("pairs", L.filt(P, keys), vals)), st)
        if isinstance(node, ast.ListComp) and len(node.generators) == 1:
            g = node.generators[0]
            e = node.elt
            if (isinstance(e, ast.Call) and isinstance(e.func, ast.Attribute) and e.func.attr == "popleft" and not e.args and not g.ifs
                    and isinstance(g.iter, ast.Call) and isinstance(g.iter.func, ast.Name) and g.iter.func.id == "range" and len(g.iter.args) == 1):
                dq = self.pev(e.func.value, st, Mode(False))
                if dq.kind == "v" and dq.hint == "deque":
                    def got_n(nsv, st1):
                        n = self.as_int(nsv)
                        sq = self.hget(st1, "$seq", dq.t)
                        n0 = If(n < 0, IntVal(0), n)
                        def cont(st2):
                            r, st3 = self.new_list(st2, L.slc(sq, IntVal(0), n0))
                            k(r, self.hset(st3, "$seq", dq.t, L.slc(sq, n0, L.slen(sq))))
                        # popleft on an empty deque raises IndexError
                        return self.branch_checks([(n0 <= L.slen(sq), "IndexError", node)], st1, ctx, cont)
                    return self.ev(g.iter.args[0], st, ctx, got_n)
        if isinstance(node, ast.ListComp):
            try:
                sv = self.pev_ListComp(node, st, Mode(False, None, None))
            except OutOfSubset:
                ov = self.comp_overapprox(node, st, ctx, k)
                if ov:
                    return
                raise
            r, st2 = self.new_list(st, sv.t)
            return k(r, st2)
        if isinstance(node, ast.SetComp):
            g = node.generators[0]
            if len(node.generators) == 1 and not g.ifs and isinstance(g.target, ast.Name):
                src = self.pev(g.iter, st, Mode(False))
                sset = self.as_set(src, st)
                if isinstance(node.elt, ast.Name) and node.elt.id == g.target.id:
                    r, st2 = self.new_set(st, sset)
                    return k(r, st2)
                # {f(x) for x in S} with f = id / _get_id : image set
                if isinstance(node.elt, ast.Call) and ast.unparse(node.elt.func) in ("id", "_get_id") and isinstance(node.elt.args[0], ast.Name) and node.elt.args[0].id == g.target.id:
                    img = self.def_set(lambda y: And(L.is_int(y), Select(sset, L.unid(L.iunbox(y)))))
                    r, st2 = self.new_set(st, img)
                    return k(r, st2)
        if isinstance(node, ast.DictComp) and len(node.generators) == 1:
            g = node.generators[0]
            # {k: v for k, v in D.items() if cond(k)}  -- order preserving filter of a dict
            if (isinstance(g.iter, ast.Call) and isinstance(g.iter.func, ast.Attribute) and g.iter.func.attr == "items" and isinstance(g.target, ast.Tuple)
                    and len(g.target.elts) == 2 and isinstance(node.key, ast.Name) and isinstance(node.value, ast.Name)
                    and node.key.id == g.target.elts[0].id and node.value.id == g.target.elts[1].id):
                d = self.pev(g.iter.func.value, st, Mode(False))
                if d.kind == "v" and is_dict_hint(d.hint):
                    keys = self.hget(st, "$dkeys", d.t)
                    vals = self.hget(st, "$dval", d.t)
                    P = self.dict_filter_pred(g, st, vals)
                    r, st2 = self.new_dict(st, L.filt(P, keys), vals)
                    return k(r, st2)
            # {f(x): x for x in S} with f = id : identity-keyed dict of an iterable
            if (isinstance(g.target, ast.Name) and not g.ifs and isinstance(node.value, ast.Name) and node.value.id == g.target.id
                    and isinstance(node.key, ast.Call) and ast.unparse(node.key.func) in ("id", "_get_id")):
                src = self.pev(g.iter, st, Mode(False))
                sq = self.as_seq(src, st)
                keys, vals = self.id_dict_of(sq)
                r, st2 = self.new_dict(st, keys, vals)
                return k(r, st2)
        raise OutOfSubset(f"comprehension {ast.unparse(node)[:60]}")
    E.ev_comp = ev_comp

    def dict_filter_pred(self, g, st, vals):
        from z3 import substitute
        x = Const("cx", V)
        kname, vname = g.target.elts[0].id, g.target.elts[1].id
        m2 = Mode(False, None, None, None, {kname: SV("v", x, None), vname: SV("v", Select(vals, x), None)}, True)
        conds = [self.truth(self.pev(c, st, m2), st) for c in g.ifs] or [BoolVal(True)]
        body = And(*conds) if len(conds) > 1 else conds[0]
        return self.def_set(lambda y: substitute(body, (x, y)))
    E.dict_filter_pred = dict_filter_pred

    def id_dict_of(self, sq):
        """keys/values of {id(x): x for x in sq}: keys = first occurrences of the ids in order, value = last object with that id
        (objects with equal id are the same object, so 'last' is 'the')"""
        idseq = Function("idseq", Sq, Sq)
        s_ = Const("s", Sq)
        i_ = Int("i")
        self.extra_axioms.append(ForAll([s_], L.slen(idseq(s_)) == L.slen(s_), patterns=[idseq(s_)]))
        self.extra_axioms.append(ForAll([s_, i_], Implies(And(0 <= i_, i_ < L.slen(s_)), L.at(idseq(s_), i_) == L.ibox(L.idof(L.at(s_, i_)))), patterns=[L.at(idseq(s_), i_)]))
        keys = L.addall(L.sempty, idseq(sq))
        vals = self.fresh("dval", MapS)
        y = Const("y", V)
        self.extra_axioms.append(ForAll([y], Implies(L.v_is_int_(y), Select(vals, y) == L.unid(L.iunbox(y))), patterns=[Select(vals, y)]))
        return keys, vals
    E.id_dict_of = id_dict_of

    # ------------------------------------------------------------------ statements
    def interfere(self, st, node, tag):
        """Interference point of a monitor-mode function: (guarantee) the monitor invariant holds now; (rely) other threads
        may then change the shared locations in any way that re-establishes it."""
        mon = self.c.monitor
        m = Mode(True, self.st0)
        rst = st.copy(env=dict(st.env, **{n: self.st0.env[n] for n in self.st0.env if n in ("self",)}))
        for i, cl in enumerate(mon["inv"]):
            g = self.truth(self.pev(ast.parse(cl, mode="eval").body, rst, m), rst)
            self.oblige(st, g, f"monitor.inv[{i}].{tag}", node)
        # two-state rely/guarantee clauses (e.g. "a counter never decreases"); old(e) = the state at the previous
        # interference point.  Guarantee: this thread's own steps since then satisfy them; rely: so do the other threads'.
        prev = st.ghost.get("$mon_prev", self.st0)
        for i, cl in enumerate(mon.get("rely", [])):
            g = self.truth(self.pev(ast.parse(cl, mode="eval").body, rst, Mode(True, prev)), rst)
            self.oblige(st, g, f"monitor.guarantee[{i}].{tag}", node)
        st2 = st
        for d in mon["havoc"]:
            for nm, obj in self.modset_entry(d, rst, Mode(True)):
                st2 = self.havoc_spot(st2, nm, obj)
        rst2 = st2.copy(env=rst.env)
        facts = [self.truth(self.pev(ast.parse(cl, mode="eval").body, rst2, m), rst2) for cl in mon["inv"]]
        facts += [self.truth(self.pev(ast.parse(cl, mode="eval").body, rst2, Mode(True, rst)), rst2) for cl in mon.get("rely", [])]
        st2 = st2.copy(ghost=dict(st2.ghost, **{"$mon_prev": rst2}))
        self.assumptions.add("monitor reading with interference: at every statement outside a lock, at every lock acquisition and around every call out of the monitor, other threads may change the shared locations arbitrarily subject to the monitor invariant; each such point first proves the invariant (guarantee)")
        return st2.assume(*facts)
    E.interfere = interfere

    def ex_block(self, stmts, st, ctx):
        if not stmts:
            return ctx.k(st)
        head, rest = stmts[0], stmts[1:]
        ctx2 = ctx.with_(k=lambda s: self.ex_block(rest, s, ctx))
        self.ex_stmt(head, st, ctx2)
    E.ex_block = ex_block

    def ex_stmt(self, s, st, ctx):
        meth = getattr(self, "ex_" + type(s).__name__, None)
        if meth is None:
            raise OutOfSubset(f"statement {type(s).__name__} at L{self.rel_line(s)}")
        if len(st.pc) > 400:
            raise OutOfSubset("path condition too long")
        if self.c.monitor and not st.ghost.get("$lockdepth") and not isinstance(s, (ast.Expr,)) or (self.c.monitor and not st.ghost.get("$lockdepth") and isinstance(s, ast.Expr) and not isinstance(s.value, ast.Constant)):
            st = self.interfere(st, s, "before-stmt")
        gh = self.c.ghost_after.get(ast.unparse(s)) if self.c.ghost_after else None
        if gh:
            k0 = ctx.k
            def after(st2, gh=gh, k0=k0):
                stmts = [ast.parse(g).body[0] for g in gh]
                for g in stmts:
                    ast.copy_location(g, s)
                    ast.fix_missing_locations(g)
                saved = self.c.ghost_after
                self.c.ghost_after = {}
                mon = self.c.monitor
                self.c.monitor = None
                try:
                    self.ex_block(stmts, st2, ctx.with_(k=k0))
                finally:
                    self.c.ghost_after = saved
                    self.c.monitor = mon
            ctx = ctx.with_(k=after)
        meth(s, st, ctx)
    E.ex_stmt = ex_stmt

    def ex_Pass(self, s, st, ctx):
        ctx.k(st)
    E.ex_Pass = ex_Pass

    def ex_Expr(self, s, st, ctx):
        v = s.value
        if isinstance(v, ast.Constant):
            return ctx.k(st)
        if isinstance(v, ast.Yield):
            return self.do_yield(v, st, ctx)
        if isinstance(v, ast.YieldFrom):
            return self.do_yield_from(v, st, ctx)
        self._discarded_call = v        # the value of this expression statement is not used
        self.ev(v, st, ctx, lambda sv, st2: ctx.k(st2))
    E.ex_Expr = ex_Expr

    def ex_AnnAssign(self, s, st, ctx):
        if s.value is None:
            return ctx.k(st)
        self.ev(s.value, st, ctx, lambda sv, st2: self.assign(s.target, sv, st2, ctx, ctx.k))
    E.ex_AnnAssign = ex_AnnAssign

    def ex_Assign(self, s, st, ctx):
        def got(sv, st2):
            def go(i, st3):
                if i == len(s.targets):
                    return ctx.k(st3)
                self.assign(s.targets[i], sv, st3, ctx, lambda st4: go(i + 1, st4))
            go(0, st2)
        self.ev(s.value, st, ctx, got)
    E.ex_Assign = ex_Assign

    def assign(self, tgt, sv, st, ctx, k):
        if isinstance(tgt, ast.Name):
            declared = self.types.get(tgt.id)
            if declared and sv.kind == "v" and sv.hint is None:
                kind, hint = type_hint(declared)
                if kind == "v":
                    sv = SV("v", sv.t, hint)
                elif kind == "int":
                    sv = SV("int", L.iunbox(sv.t))
            return k(st.bind(tgt.id, sv))
        if isinstance(tgt, ast.Tuple):
            if sv.kind == "tuple":
                if len(sv.items) != len(tgt.elts):
                    raise OutOfSubset("tuple arity")
                def go(i, st2):
                    if i == len(tgt.elts):
                        return k(st2)
                    self.assign(tgt.elts[i], sv.items[i], st2, ctx, lambda s3: go(i + 1, s3))
                return go(0, st)
            sq = self.as_seq(sv, st)
            ok = L.slen(sq) == len(tgt.elts)
            if sv.kind == "v":
                ok = And(L.is_tup(sv.t), ok)
            def cont(st2):
                def go(i, st3):
                    if i == len(tgt.elts):
                        return k(st3)
                    self.assign(tgt.elts[i], SV("v", L.at(sq, i), None), st3, ctx, lambda s4: go(i + 1, s4))
                go(0, st2)
            return self.branch_checks([(ok, "ValueError", tgt)], st, ctx, cont)
        if isinstance(tgt, ast.Attribute):
            def got_base(b, st2):
                if b.kind != "v":
                    raise OutOfSubset("attribute store on non-object")
                ty = None
                if b.hint in CLASSES:
                    ty = self.lookup_field_type(CLASSES[b.hint], tgt.attr)
                if ty is None:
                    ty = self.c.types.get("." + tgt.attr)
                if ty is None:
                    raise OutOfSubset(f"store to undeclared field {tgt.attr}")
                if ty == "int":
                    val = self.as_int(sv)
                elif ty == "seqv":
                    val = self.as_seq(sv, st2)
                elif ty == "setv":
                    val = self.as_set(sv, st2)        # a ghost field holding a set VALUE
                elif ty == "bool":
                    val = self.truth(sv, st2) if sv.kind != "bool" else sv.t
                else:
                    val = self.to_v(sv)
                k(self.hset(st2, tgt.attr, b.t, val))
            return self.ev(tgt.value, st, ctx, got_base)
        if isinstance(tgt, ast.Subscript):
            return self.store_subscript(tgt, sv, st, ctx, k)
        raise OutOfSubset(f"assignment target {type(tgt).__name__}")
    E.assign = assign

    def del_slice(self, b, tgt, st, ctx):
        """del lst[a:b] (step 1) on a list / deque object"""
        sl = tgt.slice
        if sl.step is not None or not (b.kind == "v" and (b.hint in ("list", "deque") or (b.hint in CLASSES and CLASSES[b.hint].isa == "list"))):
            raise OutOfSubset("del of this slice form")
        def got(lo, hi, st2):
            sq = self.hget(st2, "$seq", b.t)
            n = L.slen(sq)
            a, bb = self.clamp_slice(self.as_int(lo) if lo is not None else None, self.as_int(hi) if hi is not None else None, n)
            ctx.k(self.hset(st2, "$seq", b.t, L.cat(L.slc(sq, IntVal(0), a), L.slc(sq, bb, n))))
        def with_lo(lo, st1):
            if sl.upper is None:
                return got(lo, None, st1)
            self.ev(sl.upper, st1, ctx, lambda hi, st2: got(lo, hi, st2))
        if sl.lower is None:
            return with_lo(None, st)
        self.ev(sl.lower, st, ctx, with_lo)
    E.del_slice = del_slice

    def store_subscript(self, tgt, sv, st, ctx, k):
        def got_base(b, st2):
            if isinstance(tgt.slice, ast.Slice):
                # lst[a:b] = iterable (step 1) on a list / deque object: lst[:a'] + values + lst[b':] with Python's clamping, b' = max(a', b')
                sl = tgt.slice
                if sl.step is not None or not (b.kind == "v" and b.hint in ("list", "deque")):
                    raise OutOfSubset("slice store")
                def got(lo, hi, st3):
                    sq = self.hget(st3, "$seq", b.t)
                    n = L.slen(sq)
                    a, bb = self.clamp_slice(self.as_int(lo) if lo is not None else None, self.as_int(hi) if hi is not None else None, n)
                    k(self.hset(st3, "$seq", b.t, L.cat(L.cat(L.slc(sq, IntVal(0), a), self.as_seq(sv, st3)), L.slc(sq, bb, n))))
                def with_lo(lo, st1):
                    if sl.upper is None:
                        return got(lo, None, st1)
                    self.ev(sl.upper, st1, ctx, lambda hi, st3: got(lo, hi, st3))
                if sl.lower is None:
                    return with_lo(None, st2)
                return self.ev(sl.lower, st2, ctx, with_lo)
            def got_idx(ix, st3):
                if b.kind == "v" and is_dict_hint(b.hint):
                    kk = self.to_v(ix)
                    keys = self.hget(st3, "$dkeys", b.t)
                    vals = self.hget(st3, "$dval", b.t)
                    st4 = self.hset(st3, "$dval", b.t, Store(vals, kk, self.to_v(sv)))
                    st4 = self.hset(st4, "$dkeys", b.t, If(L.mem(keys, kk), keys, L.app(keys, kk)))
                    return k(st4)
                if b.kind == "v" and b.hint in ("list", "deque"):
                    s = self.hget(st3, "$seq", b.t)
                    i = self.norm_index(self.as_int(ix), L.slen(s))
                    return self.branch_checks([(And(0 <= i, i < L.slen(s)), "IndexError", tgt)], st3, ctx,
                                              lambda st4: k(self.hset(st4, "$seq", b.t, L.upd(s, i, self.to_v(sv)))))
                raise OutOfSubset(f"subscript store on {b}")
            self.ev(tgt.slice, st2, ctx, got_idx)
        self.ev(tgt.value, st, ctx, got_base)
    E.store_subscript = store_subscript

    def ex_AugAssign(self, s, st, ctx):
        tgt = s.target
        load = ast.copy_location(type(tgt)(**{f: v for f, v in ast.iter_fields(tgt)}), tgt)
        load.ctx = ast.Load()
        def got_cur(cur, st2):
            if cur.kind == "v" and cur.hint in ("list", "deque") and isinstance(s.op, ast.Add):
                # list += iterable  (in place extend)
                def got_rhs(r, st3):
                    sq = self.hget(st3, "$seq", cur.t)
                    st4 = self.hset(st3, "$seq", cur.t, L.cat(sq, self.as_seq(r, st3)))
                    self.assign(tgt, cur, st4, ctx, ctx.k)
                return self.ev(s.value, st2, ctx, got_rhs)
            binop = ast.BinOp(left=ast.Name(id="$aug", ctx=ast.Load()), op=s.op, right=s.value)
            ast.copy_location(binop, s)
            ast.fix_missing_locations(binop)
            st3 = st2.bind("$aug", cur)
            self.ev(binop, st3, ctx, lambda sv, st4: self.assign(tgt, sv, st4, ctx, ctx.k))
        self.ev(load, st, ctx, got_cur)
    E.ex_AugAssign = ex_AugAssign

    def ex_Return(self, s, st, ctx):
        if s.value is None:
            return ctx.ret(NONE, st, s)
        self.ev(s.value, st, ctx, lambda sv, st2: ctx.ret(sv, st2, s))
    E.ex_Return = ex_Return

    def ex_If(self, s, st, ctx):
        def got(c, st2):
            tv = self.truth(c, st2)
            self.fork(tv, st2, lambda a: self.ex_block(s.body, a, ctx), lambda b: self.ex_block(s.orelse, b, ctx), s)
        self.ev(s.test, st, ctx, got)
    E.ex_If = ex_If

    def ex_Assert(self, s, st, ctx):
        def got(c, st2):
            tv = self.truth(c, st2)
            self.oblige(st2, tv, "assert", s)
            ctx.k(st2.assume(tv))
        self.ev(s.test, st, ctx, got)
    E.ex_Assert = ex_Assert

    def ex_Raise(self, s, st, ctx):
        if s.exc is None:
            return ctx.exc("<reraise>", st, s)
        e = s.exc
        # raise X.with_traceback(tb) raises X
        while isinstance(e, ast.Call) and isinstance(e.func, ast.Attribute) and e.func.attr == "with_traceback":
            e = e.func.value
        name = None
        if isinstance(e, ast.Name) and e.id in st.env:
            # a variable holding an exception instance: its class is known only when it was bound by `except C as v`
            h = st.env[e.id].hint or ""
            name = h[4:] if h.startswith("exc:") else "BaseException"
        elif isinstance(e, ast.Call):
            name = ast.unparse(e.func).split(".")[-1]
            if name == "instance":        # exc.DBAPIError.instance(...): a DBAPIError (subclass)
                name = ast.unparse(e.func).split(".")[-2]
        elif isinstance(e, (ast.Name, ast.Attribute)):
            name = ast.unparse(e).split(".")[-1]
        elif isinstance(e, ast.Subscript):
            name = "BaseException"        # e.g. raise exc_info[1]
        if name is None:
            raise OutOfSubset("raise of a computed exception")
        ctx.exc(name, st, s)
    E.ex_Raise = ex_Raise

    def ex_Break(self, s, st, ctx):
        ctx.brk(st)
    E.ex_Break = ex_Break

    def ex_Continue(self, s, st, ctx):
        ctx.cont(st)
    E.ex_Continue = ex_Continue

    def ex_Delete(self, s, st, ctx):
        if len(s.targets) == 1 and isinstance(s.targets[0], ast.Attribute):
            # del obj.attr : the field holds the distinguished value <deleted> afterwards (AttributeError of a missing
            # attribute is not modelled)
            tgt = s.targets[0]
            if self.is_pure(tgt.value, st):
                b = self.pev(tgt.value, st, Mode(False, None, None))
                fty = self.lookup_field_type(CLASSES[b.hint], tgt.attr) if b.kind == "v" and b.hint in CLASSES else None
                if b.kind == "v" and b.hint in CLASSES and tgt.attr in CLASSES[b.hint].class_defaults:
                    # the instance attribute shadows a class-level default: after `del` reads see the default again
                    dv = CLASSES[b.hint].class_defaults[tgt.attr]
                    dsv = sv_bool(dv) if isinstance(dv, bool) else (sv_int(dv) if isinstance(dv, int) else NONE)
                    return self.assign(tgt, dsv, st, ctx, ctx.k)
                if fty is not None and fty.startswith("maybe:"):
                    # del of an attribute that may be absent: AttributeError when it is
                    cur = self.hget(st, tgt.attr, b.t)
                    return self.branch_checks([(cur != L.sentinel("deleted_attr"), "AttributeError", s)], st, ctx,
                                              lambda st2: self.assign(tgt, sv_v(L.sentinel("deleted_attr"), "sentinel"), st2, ctx, ctx.k))
            self.assumptions.add("`del obj.attr` is modelled as storing a distinguished <deleted> value; AttributeError when the attribute is already missing is not modelled")
            return self.assign(tgt, sv_v(L.sentinel("deleted_attr"), "sentinel"), st, ctx, ctx.k)
        if all(isinstance(t, ast.Name) for t in s.targets):
            # del local_name: the binding goes away (contract clauses see parameters by their entry values anyway)
            env = dict(st.env)
            for t in s.targets:
                env.pop(t.id, None)
            return ctx.k(st.copy(env=env))
        if len(s.targets) != 1 or not isinstance(s.targets[0], ast.Subscript):
            raise OutOfSubset("del form")
        tgt = s.targets[0]
        def got_base(b, st2):
            if isinstance(tgt.slice, ast.Slice):
                return self.del_slice(b, tgt, st2, ctx)
            def got_idx(ix, st3):
                if b.kind == "v" and is_dict_hint(b.hint):
                    kk = self.to_v(ix)
                    keys = self.hget(st3, "$dkeys", b.t)
                    def cont(st4):
                        st5 = self.hset(st4, "$dkeys", b.t, self.seq_remove(keys, kk))
                        ctx.k(st5)
                    return self.branch_checks([(L.mem(keys, kk), "KeyError", s)], st3, ctx, cont)
                if b.kind == "v" and b.hint in ("list", "deque"):
                    sq = self.hget(st3, "$seq", b.t)
                    i = self.norm_index(self.as_int(ix), L.slen(sq))
                    def cont(st4):
                        ctx.k(self.hset(st4, "$seq", b.t, L.cat(L.slc(sq, IntVal(0), i), L.slc(sq, i + 1, L.slen(sq)))))
                    return self.branch_checks([(And(0 <= i, i < L.slen(sq)), "IndexError", s)], st3, ctx, cont)
                raise OutOfSubset(f"del on {b}")
            self.ev(tgt.slice, st2, ctx, got_idx)
        self.ev(tgt.value, st, ctx, got_base)
    E.ex_Delete = ex_Delete

    def seq_remove(self, s, x):
        """s without the first occurrence of x (x is a member)"""
        return L.srem(s, x)
    E.seq_remove = seq_remove

    def ex_With(self, s, st, ctx):
        # locks and similar context managers whose __enter__/__exit__ do not affect the modelled state
        for item in s.items:
            txt = ast.unparse(item.context_expr)
            if txt == "util.safe_reraise()":
                # documented meaning: run the block, then re-raise the exception that was being handled
                self.assumptions.add("util.safe_reraise(): runs the block, then re-raises the exception being handled (its documented meaning)")
                return self.ex_block(s.body, st, ctx.with_(k=lambda st2: ctx.exc("<reraise>", st2, s)))
            if self.c.monitor and txt in self.c.monitor.get("locks", []):
                continue
            if not (txt.endswith("lock") or txt.endswith("mutex") or txt.endswith("_lock") or txt.endswith(".not_full") or txt.endswith(".not_empty")
                    or txt in self.c.callees and self.c.callees[txt] == "noop_cm"):
                raise OutOfSubset(f"with {txt}")
        if self.c.monitor and any(ast.unparse(i.context_expr) in self.c.monitor.get("locks", []) for i in s.items):
            st = self.interfere(st, s, "lock-acquire")
            depth = st.ghost.get("$lockdepth", 0)
            inner = st.copy(ghost=dict(st.ghost, **{"$lockdepth": depth + 1}))
            def leave(f):
                return (lambda *a: f(*[x.copy(ghost=dict(x.ghost, **{"$lockdepth": depth})) if isinstance(x, St) else x for x in a])) if f else None
            return self.ex_block(s.body, inner, Ctx(leave(ctx.k), leave(ctx.ret), leave(ctx.exc), leave(ctx.brk), leave(ctx.cont)))
        self.assumptions.add("`with <lock>:` is a no-op sequentially; schedules are not explored (DESIGN §2.6)")
        self.ex_block(s.body, st, ctx)
    E.ex_With = ex_With

    def ex_Try(self, s, st, ctx):
        outer = ctx

        def run_finally(then):
            """wrap a continuation so that the finally body runs first"""
            if not s.finalbody:
                return then
            def wrapped(*args):
                st_ = [a for a in args if isinstance(a, St)][0]
                fctx = outer.with_(k=lambda st2: then(*[st2 if isinstance(a, St) else a for a in args]))
                self.ex_block(s.finalbody, st_, fctx)
            return wrapped

        k_after = run_finally(outer.k)
        ret_after = run_finally(outer.ret) if outer.ret else None
        exc_after = run_finally(outer.exc)
        brk_after = run_finally(outer.brk) if outer.brk else None
        cont_after = run_finally(outer.cont) if outer.cont else None

        def handler_exc(name, st2, node):
            for h in s.handlers:
                names = []
                if h.type is None:
                    names = ["BaseException"]
                elif isinstance(h.type, ast.Tuple):
                    names = [ast.unparse(e).split(".")[-1] for e in h.type.elts]
                else:
                    names = [ast.unparse(h.type).split(".")[-1]]
                if any(exc_matches(name, n) for n in names):
                    st3 = st2
                    if h.name:
                        st3 = st3.bind(h.name, SV("v", self.fresh("exc", V), "exc:" + name))
                    def reraise(nm, st4, nd, caught=name):
                        exc_after(caught if nm == "<reraise>" else nm, st4, nd)
                    hctx = Ctx(k_after, ret_after, reraise, brk_after, cont_after)
                    return self.ex_block(h.body, st3, hctx)
            exc_after(name, st2, node)

        def body_done(st2):
            if s.orelse:
                self.ex_block(s.orelse, st2, Ctx(k_after, ret_after, exc_after, brk_after, cont_after))
            else:
                k_after(st2)
        bctx = Ctx(body_done, ret_after, handler_exc, brk_after, cont_after)
        self.ex_block(s.body, st, bctx)
    E.ex_Try = ex_Try

    def ex_FunctionDef(self, s, st, ctx):
        ctx.k(st.bind(s.name, SV("py", py=("localdef", s))))
    E.ex_FunctionDef = ex_FunctionDef

    # ------------------------------------------------------------------ yield
    def do_yield(self, v, st, ctx):
        def got(sv, st2):
            val = self.to_v(sv) if sv.kind != "v" or sv.hint not in ("list",) else sv.t
            m = Mode(True, self.st0, None, None, {"yielded": sv, "out": SV("seq", st2.out)})
            for i, cl in enumerate(self.c.yields):
                g = self.truth(self.pev(ast.parse(cl, mode="eval").body, st2, m), st2)
                self.oblige(st2, g, f"yield[{i}]", v)
            # yielded lists are snapshotted by value into `out` (a yielded list that is mutated later is out of subset)
            item = L.sbox(self.as_seq(sv, st2)) if self.is_listlike(sv) else val
            ctx.k(st2.copy(out=L.app(st2.out, item)))
        if v.value is None:
            return got(NONE, st)
        self.ev(v.value, st, ctx, got)
    E.do_yield = do_yield

    def do_yield_from(self, v, st, ctx):
        def got(sv, st2):
            ctx.k(st2.copy(out=L.cat(st2.out, self.as_seq(sv, st2))))
        self.ev(v.value, st, ctx, got)
    E.do_yield_from = do_yield_from


_patch_exec()


# ====================================================================== loops
MUTATING_METHODS = {"append", "extend", "insert", "pop", "remove", "clear", "add", "discard", "update", "difference_update",
                    "intersection_update", "symmetric_difference_update", "popleft", "appendleft", "setdefault", "popitem",
                    "sort", "reverse", "__init__", "put", "put_nowait"}


def _patch_loops():
    E = Exec

    def assigned_names(self, body):
        names = set()
        class Vis(ast.NodeVisitor):
            def visit_FunctionDef(s, n):
                names.add(n.name)
            def visit_Lambda(s, n):
                pass
            def visit_Name(s, n):
                if isinstance(n.ctx, (ast.Store, ast.Del)):
                    names.add(n.id)
            def visit_ListComp(s, n):
                pass
            visit_SetComp = visit_DictComp = visit_GeneratorExp = visit_ListComp
        for b in body:
            Vis().visit(b)
        return names
    E.assigned_names = assigned_names

    def loop_effects(self, s):
        """syntactic over-approximation of what a loop body mutates in the heap:
        list of (kind, receiver_text, extra) ; kind in field/contents/call/wild"""
        eff = []
        body = list(s.body) + list(getattr(s, "orelse", []))
        has_yield = False
        raised = set()
        for b in body:
            for n in ast.walk(b):
                if isinstance(n, ast.Raise) and isinstance(n.exc, ast.Call):
                    raised.add(id(n.exc))
        for b in body:
            for n in ast.walk(b):
                if id(n) in raised:
                    continue
                if isinstance(n, (ast.Yield, ast.YieldFrom)):
                    has_yield = True
                if isinstance(n, ast.Attribute) and isinstance(n.ctx, (ast.Store, ast.Del)):
                    eff.append(("field", ast.unparse(n.value), n.attr))
                if isinstance(n, ast.Subscript) and isinstance(n.ctx, (ast.Store, ast.Del)):
                    eff.append(("contents", ast.unparse(n.value), None))
                if isinstance(n, ast.Subscript) and isinstance(n.value, ast.Name) and self.types.get(n.value.id) == "ddset":
                    eff.append(("contents", n.value.id, None))   # reading a defaultdict inserts the key
                if isinstance(n, ast.AugAssign) and isinstance(n.target, (ast.Name, ast.Attribute)):
                    eff.append(("contents", ast.unparse(n.target), None))
                if isinstance(n, ast.Call):
                    txt = ast.unparse(n.func)
                    if txt in self.c.callees:
                        tgt = self.callee_target(txt)[0]
                        if tgt.startswith("pure:") or tgt in ("identity", "noop", "id"):
                            continue
                        eff.append(("call", txt, n))
                        continue
                    if isinstance(n.func, ast.Attribute):
                        if n.func.attr in MUTATING_METHODS:
                            base = n.func.value
                            if isinstance(base, ast.Subscript) and isinstance(base.value, ast.Name) and self.types.get(base.value.id) == "ddset":
                                continue     # recorded through the subscript read
                            if isinstance(base, ast.Name) and base.id in ("set", "list", "dict") and n.args:
                                eff.append(("contents", ast.unparse(n.args[0]), None))
                            else:
                                eff.append(("contents", ast.unparse(base), None))
                        elif not self.call_is_pure_static(n):
                            eff.append(("call", txt, n))
                    elif isinstance(n.func, ast.Name) and self.types.get(n.func.id) == "fn":
                        continue
                    elif isinstance(n.func, ast.Name) and n.func.id not in PURE_BUILTINS and n.func.id not in ("list", "set", "dict", "tuple", "range", "reversed", "sorted", "enumerate", "zip", "iter", "next"):
                        eff.append(("call", txt, n))
        return eff, has_yield
    E.loop_effects = loop_effects

    def call_is_pure_static(self, n):
        return isinstance(n.func, ast.Attribute) and n.func.attr in ("get", "isdisjoint", "issubset", "issuperset", "index", "count", "keys", "values", "items", "copy", "startswith", "endswith", "__contains__", "difference", "union", "intersection")
    E.call_is_pure_static = call_is_pure_static

    def content_maps(self, sv):
        h = sv.hint
        if h in ("list", "deque"):
            return ["$seq"]
        if h in ("set", "frozenset"):
            return ["$set"]
        if h == "dict":
            return ["$dkeys", "$dval"]
        if h == "ddset":
            return ["$dd", "$ddkeys"]
        if h and h.startswith("ddslot:"):
            return None
        if h in CLASSES:
            c = CLASSES[h]
            return {"set": ["$set"], "list": ["$seq"], "dict": ["$dkeys", "$dval"]}.get(c.isa, [])
        return None
    E.content_maps = content_maps

    def havoc_loop(self, s, st, k_ord):
        """returns the havoc'ed state for the loop head"""
        eff, has_yield = self.loop_effects(s)
        names = self.assigned_names(list(s.body) + list(getattr(s, "orelse", [])))
        if isinstance(s, ast.For):
            names |= self.assigned_names([ast.Assign(targets=[s.target], value=ast.Constant(0))])
        st2 = st
        env = dict(st.env)
        for n in names:
            if n in env:
                old = env[n]
                if old.kind == "py":
                    continue
                if old.kind == "tuple":
                    env[n] = SV("v", self.fresh(n, V), None)
                else:
                    srt = {"int": IntSort(), "bool": BoolSort(), "v": V, "seq": Sq, "set": SetS}[old.kind]
                    env[n] = SV(old.kind, self.fresh(n, srt), self.types.get(n) and type_hint(self.types[n])[1] or old.hint)
            else:
                env.pop(n, None)
        st2 = st2.copy(env=env)
        wild = set()
        spots = []   # (heapname, obj term)
        declared = self.c.loop_modifies.get(k_ord)
        if declared is not None:
            for d in declared:
                if d == "*":
                    self.materialise_all(st2)
                    wild |= set(st2.heap) | set(self.heap0)
                    continue
                spots += self.modset_entry(d, st, Mode(True))
        else:
            for kind, txt, extra in eff:
                try:
                    recv = self.pev(ast.parse(txt, mode="eval").body, st, Mode(True))
                    usable = not (set(n.id for n in ast.walk(ast.parse(txt)) if isinstance(n, ast.Name)) & names)
                except Exception:
                    recv, usable = None, False
                if kind == "field":
                    if usable and recv is not None and recv.kind == "v":
                        spots.append((extra, recv.t))
                    else:
                        wild.add(extra)
                elif kind == "contents":
                    maps = self.content_maps(recv) if (usable and recv is not None and recv.kind == "v") else None
                    if maps is None:
                        if recv is not None and recv.kind == "v" and recv.hint and recv.hint.startswith("ddslot:"):
                            wild |= {"$dd", "$ddkeys"}
                        elif isinstance(ast.parse(txt, mode="eval").body, ast.Subscript):
                            wild |= {"$dd", "$ddkeys", "$seq", "$set"}
                        else:
                            wild |= {"$seq", "$set", "$dkeys", "$dval"}
                    else:
                        for mname in maps:
                            spots.append((mname, recv.t))
                elif kind == "call":
                    tgt, cspec = self.callee_target(txt)
                    fnc = FUNCS.get(tgt) if tgt else None
                    if fnc is not None and fnc.modifies and not any(mm == "*" for mm in fnc.modifies):
                        # evaluate the callee's frame at loop entry when receiver and arguments are loop-invariant
                        try:
                            sp = self.call_frame_spots(fnc, cspec, extra, st, names)
                        except Exception:
                            sp = None
                        if sp is not None:
                            spots += sp
                            continue
                    if fnc is None and isinstance(extra.func, ast.Attribute):
                        try:
                            r = self.pev(extra.func.value, st, Mode(True))
                            if r.kind == "v" and r.hint in CLASSES and extra.func.attr in CLASSES[r.hint].methods:
                                fnc = FUNCS[CLASSES[r.hint].methods[extra.func.attr]]
                        except Exception:
                            pass
                    if tgt and (tgt.startswith("havoc:") or tgt.startswith("newobj:") or tgt.startswith("subst:") or tgt in ("ddset", "newdeque")):
                        continue
                    if fnc is None or any(mm == "*" for mm in fnc.modifies):
                        raise OutOfSubset(f"loop body calls {txt} whose frame is unknown")
                    elif fnc.modifies:
                        # callee frames are relative to its own parameters: be conservative
                        for mm in fnc.modifies:
                            for nm in self.modset_names(mm, fnc):
                                wild.add(nm)
        # every heap map the body may touch gets a fresh value that agrees with the old one on all objects
        # allocated before the loop except the listed ones (checked at the end of each body path: loopK.frame)
        touched = set(wild) | {nm for nm, _ in spots}
        for kind, txt, extra in eff:
            if kind == "field":
                touched.add(extra)
            else:
                touched |= {"$seq", "$set", "$dkeys", "$dval"}
                if "$dd" in st2.heap or "$dd" in self.heap0:
                    touched |= {"$dd", "$ddkeys"}
        frame = {}
        heap = dict(st2.heap)
        o = Const("o", V)
        facts = []
        for nm in sorted(touched):
            cur = self.hfield(st2, nm)
            newarr = self.fresh("H_" + nm.replace("$", "S_"), cur.sort())
            excl = [self.spot_excl(obj, o) for (n2, obj) in spots if n2 == nm]
            facts.append(ForAll([o], Implies(And(Select(st.alloc, o), *excl), Select(newarr, o) == Select(cur, o)), patterns=[Select(newarr, o)]))
            heap[nm] = newarr
            frame[nm] = (newarr, excl and [obj for (n2, obj) in spots if n2 == nm] or [])
        st2 = st2.copy(heap=heap)
        if touched:
            na = self.fresh("alloc", SetS)
            x = Const("x", V)
            facts.append(ForAll([x], Implies(Select(st.alloc, x), Select(na, x)), patterns=[Select(st.alloc, x)]))
            st2 = st2.copy(alloc=na)
        st2 = st2.assume(*facts) if facts else st2
        st2.ghost = dict(st2.ghost, **{f"$frame{k_ord}": (frame, st.alloc)})
        # loop-carried variables of a container / class type still hold an allocated object of that type
        tf = []
        for n in names:
            sv = st2.env.get(n)
            if sv is not None and sv.kind == "v" and n in st.env:
                tf += self.param_facts(n, sv, None, st2)
        st2 = st2.assume(*tf) if tf else st2
        if has_yield:
            no = self.fresh("out", Sq)
            st2 = st2.copy(out=no)
        # ghost variables are loop-carried too
        return st2
    E.havoc_loop = havoc_loop

    def call_frame_spots(self, fnc, cspec, call, st, assigned):
        arg_nodes = [ast.parse(a, mode="eval").body for a in cspec["args"]] if cspec and "args" in cspec else list(call.args)
        recv_node = None
        if cspec and cspec.get("recv"):
            recv_node = ast.parse(cspec["recv"], mode="eval").body
        elif fnc.cls and isinstance(call.func, ast.Attribute):
            recv_node = call.func.value
        for nd in arg_nodes + ([recv_node] if recv_node is not None else []):
            if set(n.id for n in ast.walk(nd) if isinstance(n, ast.Name)) & assigned:
                return None
        names, defaults = self.callee_params(fnc)
        env = {}
        vals = [self.pev(a, st, Mode(True)) for a in arg_nodes]
        if fnc.cls and names and names[0] in ("self", "cls"):
            r = self.pev(recv_node, st, Mode(True)) if recv_node is not None else vals.pop(0)
            env[names[0]] = SV("v", r.t, fnc.cls if r.hint not in CLASSES else r.hint)
            names = names[1:]
        for nm in names:
            if vals:
                env[nm] = vals.pop(0)
        sub = self.sub(fnc)
        cst = st.copy(env=env)
        out = []
        for d in fnc.modifies:
            out += sub.modset_entry(d, cst, Mode(True))
        return out
    E.call_frame_spots = call_frame_spots

    def modset_names(self, mm, fnc):
        """heap map names a callee modifies-entry may touch (conservative)"""
        mm = mm.strip()
        if mm.startswith("contents("):
            return ["$seq", "$set", "$dkeys", "$dval", "$dd", "$ddkeys"]
        if "." in mm:
            return [mm.split(".")[-1]]
        return []
    E.modset_names = modset_names

    def modset_entry(self, d, st, m):
        """one modifies entry -> list of (heapname, obj term) evaluated in state st"""
        d = d.strip()
        node = ast.parse(d, mode="eval").body
        if isinstance(node, ast.Call) and isinstance(node.func, ast.Name) and node.func.id == "contents":
            sv = self.pev(node.args[0], st, m)
            maps = self.content_maps(sv)
            if maps is None:
                raise ContractError(f"modifies {d}: not a container")
            return [(mn, sv.t) for mn in maps]
        if isinstance(node, ast.Attribute) and isinstance(node.value, ast.Call) and isinstance(node.value.func, ast.Name) and node.value.func.id == "each":
            # each(S).f : field f of every member of the sequence S
            sq = self.as_seq(self.pev(node.value.args[0], st, m), st)
            return [(node.attr, ("members", sq))]
        if isinstance(node, ast.Attribute) and isinstance(node.value, ast.Name) and node.value.id == "any" and node.attr == "contents":
            # any.contents : the contents of any builtin container (list / set / dict)
            return [(mn, ("any",)) for mn in ("$seq", "$set", "$dkeys", "$dval")]
        if isinstance(node, ast.Attribute) and isinstance(node.value, ast.Name) and node.value.id == "any":
            return [(node.attr, ("any",))]       # any.f : field f of any object (the postcondition has to pin it down)
        if isinstance(node, ast.Attribute):
            base = self.pev(node.value, st, m)
            return [(node.attr, base.t)]
        raise ContractError(f"modifies entry {d!r}")
    E.modset_entry = modset_entry

    def check_loop_frame(self, k_ord, se, node):
        fr = se.ghost.get(f"$frame{k_ord}")
        if not fr:
            return
        frame, alloc_entry = fr
        o = Const("o", V)
        for nm, (headarr, objs) in frame.items():
            cur = se.heap.get(nm)
            if cur is None or cur.eq(headarr):
                continue
            g = ForAll([o], Implies(And(Select(alloc_entry, o), *[self.spot_excl(x, o) for x in objs]), Select(cur, o) == Select(headarr, o)),
                       patterns=[Select(cur, o)])
            self.oblige(se, g, f"loop{k_ord}.frame[{nm}]", node)
    E.check_loop_frame = check_loop_frame

    def spot_excl(self, obj, o):
        """formula: object o is NOT the location(s) denoted by a modset spot"""
        if isinstance(obj, tuple) and obj[0] == "members":
            return Not(L.mem(obj[1], o))
        if isinstance(obj, tuple) and obj[0] == "any":
            return BoolVal(False)
        return o != obj
    E.spot_excl = spot_excl

    def havoc_spot(self, st, nm, obj):
        cur = self.hfield(st, nm)
        if isinstance(obj, tuple) and obj[0] == "any":
            h = dict(st.heap)
            h[nm] = self.fresh("H_" + nm.replace("$", "S_"), cur.sort())
            return st.copy(heap=h)
        if isinstance(obj, tuple) and obj[0] == "members":
            new = self.fresh("H_" + nm.replace("$", "S_"), cur.sort())
            o = Const("o", V)
            h = dict(st.heap)
            h[nm] = new
            return st.copy(heap=h).assume(ForAll([o], Implies(Not(L.mem(obj[1], o)), Select(new, o) == Select(cur, o)), patterns=[Select(new, o)]))
        hv = self.fresh("hv", cur.sort().range())
        if nm == "$dkeys":
            st = st.assume(L.nodup(hv))
        return self.hset(st, nm, obj, hv)
    E.havoc_spot = havoc_spot

    def inv_clauses(self, k_ord):
        inv = self.c.invariant.get(k_ord, [])
        return [inv] if isinstance(inv, str) else list(inv)
    E.inv_clauses = inv_clauses

    def check_inv(self, k_ord, st, binds, node, tag):
        binds = dict(st.ghost.get("$outer_idx", {}), **binds)      # indices of the enclosing for loops: _i<ordinal>
        binds = dict(binds, **{"$entry": SV("py", py=st.ghost.get(f"$loop{k_ord}_entry", self.st0))})
        m = Mode(True, self.st0, None, None, dict(binds, out=SV("seq", st.out)) if st.out is not None else binds)
        for i, cl in enumerate(self.inv_clauses(k_ord)):
            g = self.truth(self.pev(ast.parse(cl, mode="eval").body, st, m), st)
            self.oblige(st, g, f"loop{k_ord}.inv[{i}].{tag}", node)
    E.check_inv = check_inv

    def assume_inv(self, k_ord, st, binds):
        binds = dict(st.ghost.get("$outer_idx", {}), **binds)
        binds = dict(binds, **{"$entry": SV("py", py=st.ghost.get(f"$loop{k_ord}_entry", self.st0))})
        m = Mode(True, self.st0, None, None, dict(binds, out=SV("seq", st.out)) if st.out is not None else binds)
        fs = [self.truth(self.pev(ast.parse(cl, mode="eval").body, st, m), st) for cl in self.inv_clauses(k_ord)]
        return st.assume(*fs) if fs else st
    E.assume_inv = assume_inv

    def ex_For(self, s, st, ctx):
        k_ord = self.loop_ordinals[id(s)]
        def got_iter(itsv, st1):
            if itsv.kind == "tuple":
                # statically known elements (e.g. *args of fixed arity): unrolled, no invariant needed
                items = list(itsv.items)
                def step(i, stx):
                    if i == len(items):
                        if s.orelse:
                            return self.ex_block(s.orelse, stx, ctx)
                        return ctx.k(stx)
                    nxt = lambda s2: step(i + 1, s2)
                    bctx = Ctx(nxt, ctx.ret, ctx.exc, ctx.k, nxt)
                    self.assign(s.target, items[i], stx, bctx, lambda s3: self.ex_block(s.body, s3, bctx))
                return step(0, st1)
            it_node = s.iter
            # enumerate / zip / range handled as index-aligned views
            self._cur_for = s
            seq, elem = self.iter_view(it_node, itsv, st1)
            n = L.slen(seq) if seq is not None else elem["n"]
            st_entry = st1.copy(ghost=dict(st1.ghost, **{f"$loop{k_ord}_entry": st1}))
            self.check_inv(k_ord, st_entry, dict({"_i": sv_int(0), f"_i{k_ord}": sv_int(0), "_n": SV("int", n)}, **({"_seq": SV("seq", seq)} if seq is not None else {})), s, "entry")
            sth = self.havoc_loop(s, st_entry, k_ord)
            i = self.fresh(f"i{k_ord}", IntSort())
            binds = {"_i": SV("int", i, "nonneg"), f"_i{k_ord}": SV("int", i, "nonneg"), "_n": SV("int", n)}
            if seq is not None:
                binds["_seq"] = SV("seq", seq)       # the iterated sequence (needed when the loop runs over an unnamed value)
            sth = sth.assume(0 <= i, i <= n)
            sth = self.assume_inv(k_ord, sth, binds)
            # exit
            def exit_path(se):
                se = se.copy(notes=se.notes + (f"loop{k_ord}:exit",))
                if s.orelse:
                    self.ex_block(s.orelse, se, ctx)
                else:
                    ctx.k(se)
            if seq is not None and any("prefix(" in cl for cl in self.inv_clauses(k_ord)):
                # the full prefix is the sequence itself (instance of axiom slc_full)
                exit_path(sth.assume(i == n, L.slc(seq, IntVal(0), i) == seq))
            else:
                exit_path(sth.assume(i == n))
            # body
            sb = sth.assume(i < n)
            sb = sb.copy(notes=sb.notes + (f"loop{k_ord}:body",),
                         ghost=dict(sth.ghost, **{"$outer_idx": dict(sth.ghost.get("$outer_idx", {}), **{f"_i{k_ord}": SV("int", i, "nonneg")})}))
            if seq is not None:
                if any("prefix(" in cl for cl in self.inv_clauses(k_ord)):
                    # snoc step of the iterated prefix (instance of a true lemma; only sent when an invariant speaks of prefixes)
                    sb = sb.assume(L.slc(seq, IntVal(0), i + 1) == L.app(L.slc(seq, IntVal(0), i), L.at(seq, i)))
                el = elem(i)
            else:
                el = elem["at"](i)
            def end_body(se):
                b2 = {"_i": SV("int", i + 1), f"_i{k_ord}": SV("int", i + 1), "_n": SV("int", n)}
                if seq is not None:
                    b2["_seq"] = SV("seq", seq)
                self.check_inv(k_ord, se, b2, s, "preserved")
                self.check_loop_frame(k_ord, se, s)
                if itsv.kind == "v" and itsv.hint in ("list", "deque"):
                    self.oblige(se, self.hget(se, "$seq", itsv.t) == seq, f"loop{k_ord}.iterated-list-unchanged", s)
                if itsv.kind == "py" and isinstance(itsv.py, tuple) and itsv.py[0] == "items":
                    dt = itsv.py[1][0].t
                    self.oblige(se, And(self.hget(se, "$dkeys", dt) == seq, self.hget(se, "$dval", dt) == self.hget(st1, "$dval", dt)),
                                f"loop{k_ord}.iterated-dict-unchanged", s)
                self.paths += 1
            bctx = Ctx(end_body, ctx.ret, ctx.exc, lambda sbk: ctx.k(sbk.copy(notes=sbk.notes + (f"loop{k_ord}:break",))), end_body)
            self.assign(s.target, el, sb, bctx, lambda s3: self.ex_block(s.body, s3, bctx))
        self.ev_iter(s.iter, st, ctx, got_iter)
    E.ex_For = ex_For

    def ev_iter(self, node, st, ctx, k):
        if isinstance(node, ast.Call) and ast.unparse(node.func) in self.c.callees:
            tgt, spec = self.callee_target(ast.unparse(node.func))
            fnc = FUNCS.get(tgt)
            if fnc is not None and fnc.yields:
                return self.ev_generator_call(fnc, spec, node, st, ctx, k)
        if isinstance(node, ast.Call) and isinstance(node.func, ast.Name) and node.func.id in ("range", "enumerate", "zip", "reversed"):
            return self.ev_list(node.args, st, ctx, lambda svs, st2: k(SV("py", py=(node.func.id, svs)), st2))
        if (isinstance(node, ast.Call) and isinstance(node.func, ast.Attribute) and node.func.attr == "items" and not node.args and not node.keywords
                and ast.unparse(node.func) not in self.c.callees):
            # for k, v in d.items(): an index-aligned view (key_i, d[key_i]) of the dictionary as it is at loop entry; the loop must leave the
            # dictionary alone (obligation `iterated-dict-unchanged` at the end of the body; CPython raises RuntimeError on a size change)
            def got_d(d, st2):
                if d.kind != "v" or not is_dict_hint(d.hint):
                    raise OutOfSubset("items() of a value that is not a dictionary")
                k(SV("py", py=("items", [d], node.func.value)), st2)
            return self.ev(node.func.value, st, ctx, got_d)
        self.ev(node, st, ctx, k)
    E.ev_iter = ev_iter

    def ev_generator_call(self, fnc, spec, node, st, ctx, k):
        """`for x in gen(args)` where gen is a generator under contract: the loop runs over S = the sequence of values the
        generator yields before it stops; the callee's postconditions (about `out` = S) are assumed; the callee may raise
        instead of yielding the next value (handled at the loop head by the caller of ev_iter: see may_raise below)."""
        def with_args(svs, st2):
            sub = self.sub(fnc)
            names, defaults = self.callee_params(fnc)
            env = {}
            pos = list(svs)
            for nm in names:
                if pos:
                    env[nm] = pos.pop(0)
                elif nm in defaults:
                    env[nm] = self.pev(defaults[nm], st2, Mode(True))
            for nm, ty in fnc.types.items():
                if nm in env and env[nm].kind == "v" and env[nm].hint is None and type_hint(ty)[0] == "seq":
                    env[nm] = SV("seq", self.as_seq(env[nm], st2))
            # rigid ghost parameters of the callee that the caller binds by name (e.g. S)
            for nm, ty in fnc.types.items():
                if nm not in env and nm in st2.env and not nm.startswith("."):
                    env[nm] = st2.env[nm]
            cst = st2.copy(env=env)
            for i, cl in enumerate(fnc.requires):
                try:
                    g = sub.truth(sub.pev(ast.parse(cl, mode="eval").body, cst, Mode(True)), cst)
                except (OutOfSubset, ContractError):
                    continue        # clause about a ghost parameter the caller does not have
                self.oblige(st2, g, f"call[{fnc.qualname}].pre[{i}]", node)
            S = self.fresh("gen_out", Sq)
            self.callees_used = getattr(self, "callees_used", set())
            self.callees_used.add(fnc.key)
            facts = []
            m_post = Mode(True, cst, None, NONE, {"out": SV("seq", S)})
            for cl in fnc.ensures:
                try:
                    facts.append(sub.truth(sub.pev(ast.parse(cl, mode="eval").body, cst, m_post), cst))
                except (OutOfSubset, ContractError):
                    continue
            st3 = st2.assume(*facts) if facts else st2
            if spec and spec.get("bind"):
                st3 = st3.bind(spec["bind"], SV("seq", S))
            # exceptional termination of the generator: reported once, before the loop (state = loop entry)
            for exc_name in list(fnc.raises) + list(fnc.may_raise):
                ctx.exc(exc_name.split("@")[0], st2.copy(notes=st2.notes + (f"L{self.rel_line(node)}:{exc_name}",)), node)
            k(SV("seq", S), st3)
        self.ev_list(node.args, st, ctx, with_args)
    E.ev_generator_call = ev_generator_call

    def iter_view(self, node, itsv, st):
        if itsv.kind == "py" and isinstance(itsv.py, tuple) and itsv.py[0] == "range":
            args = [self.as_int(a) for a in itsv.py[1]]
            lo, hi = (IntVal(0), args[0]) if len(args) == 1 else (args[0], args[1])
            if len(args) == 3:
                raise OutOfSubset("range step")
            n = If(hi > lo, hi - lo, IntVal(0))
            return None, {"n": n, "at": lambda i: SV("int", lo + i)}
        if itsv.kind == "py" and isinstance(itsv.py, tuple) and itsv.py[0] == "enumerate":
            src = itsv.py[1][0]
            sq = self.as_seq(src, st)
            et = self.elem_type(node.args[0], src)
            kind, hint = type_hint(et)
            return sq, (lambda i: SV("tuple", items=[SV("int", i), SV("v", L.at(sq, i), hint)]))
        if itsv.kind == "py" and isinstance(itsv.py, tuple) and itsv.py[0] == "items":
            d, dnode = itsv.py[1][0], itsv.py[2]
            sq = self.hget(st, "$dkeys", d.t)
            vals = self.hget(st, "$dval", d.t)
            _, kh = type_hint(self.types.get("keys:" + ast.unparse(dnode), "v"))
            _, vh = type_hint(self.types.get("values:" + ast.unparse(dnode), "v"))
            return sq, (lambda i: SV("tuple", items=[SV("v", L.at(sq, i), kh), SV("v", Select(vals, L.at(sq, i)), vh)]))
        if itsv.kind == "py" and isinstance(itsv.py, tuple) and itsv.py[0] == "reversed":
            src = itsv.py[1][0]
            sq = L.rev(self.as_seq(src, st))
            et = self.elem_type(node.args[0], src)
            kind, hint = type_hint(et)
            return sq, (lambda i: SV("v", L.at(sq, i), hint))
        if itsv.kind == "v" and itsv.hint == "ddset":
            sq = self.set_order(self.hget(st, "$ddkeys", itsv.t))
            return sq, (lambda i: SV("v", L.at(sq, i), None))
        if itsv.kind == "v" and itsv.hint and itsv.hint.startswith("ddslot:"):
            d = st.env[itsv.hint[7:]]
            sq = self.set_order(Select(self.hget(st, "$dd", d.t), itsv.t))
            return sq, (lambda i: SV("v", L.at(sq, i), None))
        if (isinstance(node, ast.Subscript) and isinstance(node.slice, ast.Slice) and node.slice.step is None
                and self.is_pure(node, st) and not any("prefix(" in cl for cl in self.inv_clauses(self.loop_ordinals.get(id(self._cur_for), -1)))):
            # for x in s[a:b]: an index-shifted view of s itself (no slice term: x_i = s[a' + i], a'/b' the clamped bounds)
            try:
                base = self.pev(node.value, st, Mode(False, None, None))
            except OutOfSubset:
                base = None
            if base is not None and (base.kind == "seq" or (base.kind == "v" and base.hint in ("list", "deque"))):
                bs = self.as_seq(base, st)
                nb = L.slen(bs)
                lo = self.as_int(self.pev(node.slice.lower, st, Mode(False, None, None))) if node.slice.lower is not None else None
                hi = self.as_int(self.pev(node.slice.upper, st, Mode(False, None, None))) if node.slice.upper is not None else None
                a, b = self.clamp_slice(lo, hi, nb)
                et = self.elem_type(node, itsv)
                kind, hint = type_hint(et)
                if kind == "int":
                    return None, {"n": b - a, "at": lambda i: SV("int", L.iunbox(L.at(bs, a + i)))}
                return None, {"n": b - a, "at": lambda i: SV("v", L.at(bs, a + i), hint)}
        sq = self.as_seq(itsv, st)
        et = self.elem_type(node, itsv)
        kind, hint = type_hint(et)
        if kind == "int":
            return sq, (lambda i: SV("int", L.iunbox(L.at(sq, i))))
        return sq, (lambda i: SV("v", L.at(sq, i), hint))
    E.iter_view = iter_view

    def ex_While(self, s, st, ctx):
        k_ord = self.loop_ordinals[id(s)]
        st_entry = st.copy(ghost=dict(st.ghost, **{f"$loop{k_ord}_entry": st}))
        self.check_inv(k_ord, st_entry, {}, s, "entry")
        sth = self.havoc_loop(s, st_entry, k_ord)
        sth = self.assume_inv(k_ord, sth, {})
        dec = self.c.decreases.get(k_ord)
        def got_test(c, st2):
            tv = self.truth(c, st2)
            def exit_path(se):
                se = se.copy(notes=se.notes + (f"loop{k_ord}:exit",))
                if s.orelse:
                    self.ex_block(s.orelse, se, ctx)
                else:
                    ctx.k(se)
            def body_path(sb):
                sb = sb.copy(notes=sb.notes + (f"loop{k_ord}:body",))
                d0 = None
                if dec:
                    d0 = self.as_int(self.pev(ast.parse(dec, mode="eval").body, sb, Mode(True, self.st0)))
                def end_body(se):
                    self.check_inv(k_ord, se, {}, s, "preserved")
                    self.check_loop_frame(k_ord, se, s)
                    if dec:
                        d1 = self.as_int(self.pev(ast.parse(dec, mode="eval").body, se, Mode(True, self.st0)))
                        self.oblige(se, And(d0 >= 0, d1 < d0), f"loop{k_ord}.decreases", s)
                    self.paths += 1
                bctx = Ctx(end_body, ctx.ret, ctx.exc, lambda sbk: ctx.k(sbk.copy(notes=sbk.notes + (f"loop{k_ord}:break",))), end_body)
                self.ex_block(s.body, sb, bctx)
            self.fork(tv, st2, body_path, exit_path, s)
        self.ev(s.test, sth, ctx, got_test)
    E.ex_While = ex_While


_patch_loops()


# ====================================================================== calls
def _patch_calls():
    E = Exec
    from z3 import Lambda

    def callee_target(self, txt):
        """callees[txt] may be a string target or a dict(fn=key, recv="expr", args=["expr", ...])"""
        v = self.c.callees.get(txt)
        if isinstance(v, dict):
            return v["fn"], v
        return v, None
    E.callee_target = callee_target

    def ev_call(self, node, st, ctx, k):
        f = node.func
        txt = ast.unparse(f)
        if node.keywords and any(kw.arg is None for kw in node.keywords):
            # f(*a, **kw): only when the call-site spec names the arguments the contract sees (the actual ones are opaque)
            _t, _sp = self.callee_target(txt) if txt in self.c.callees else (None, None)
            if not (_sp is not None and "args" in _sp) and _t not in ("noop",):
                raise OutOfSubset("**kwargs call")
        if txt in self.c.callees:
            tgt, spec = self.callee_target(txt)
            if spec is not None:
                fnc = FUNCS[tgt]
                call = node
                if spec.get("expect") and ast.unparse(node) != spec["expect"]:
                    # the assumed contract describes this call with exactly these arguments (e.g. sorted(..., reverse=True))
                    raise OutOfSubset(f"call `{ast.unparse(node)[:80]}` differs from the form its assumed contract describes: `{spec['expect'][:80]}`")
                if "args" in spec:
                    def _arg(a):
                        if a.startswith("$kw:"):    # "$kw:name": the actual keyword argument `name=` of the call (must be there)
                            kws = [kw.value for kw in node.keywords if kw.arg == a[4:]]
                            if len(kws) != 1:
                                raise OutOfSubset(f"call-site spec refers to keyword argument {a[4:]!r}, which the call does not pass")
                            return kws[0]
                        if a.startswith("$"):       # "$i": the i-th actual positional argument of the call
                            act = node.args[int(a[1:])]
                            if isinstance(act, ast.Starred):
                                raise OutOfSubset("call-site spec refers to a starred argument")
                            return act
                        return ast.parse(a, mode="eval").body
                    call = ast.Call(func=node.func, args=[_arg(a) for a in spec["args"]], keywords=[])
                    ast.copy_location(call, node)
                    ast.fix_missing_locations(call)
                recv_node = ast.parse(spec["recv"], mode="eval").body if spec.get("recv") else None
                if recv_node is not None:
                    ast.copy_location(recv_node, node)
                    ast.fix_missing_locations(recv_node)
                if spec.get("ghost"):
                    call._ghost_binds = spec["ghost"]      # callee ghost parameter -> expression over the caller's state
                k2 = k
                if spec.get("returns"):
                    # the call site knows more about the result's class than the callee's (generic) contract does
                    k2 = lambda r, st9: k(SV("v", self.to_v(r), spec["returns"]), st9)
                return self.ev_contract_call(fnc, recv_node, call, st, ctx, k2)
            if tgt.startswith("construct:"):
                # the class is under contract under another name: allocate and run its __init__ contract
                return self.ev_construct(tgt[10:], node, st, ctx, k)
            if tgt.startswith("clobber:"):
                # a call whose only modelled effect is an arbitrary change of the contents of the named container
                # (sound over-approximation of e.g. d.update(<comprehension>)); its arguments are not evaluated
                sv = self.pev(ast.parse(tgt[8:], mode="eval").body, st, Mode(True))
                st2 = st
                for mn in (self.content_maps(sv) or []):
                    st2 = self.havoc_spot(st2, mn, sv.t)
                return k(NONE, st2)
            if tgt.startswith("subst:"):
                # the call stands for the given expression (e.g. self.__dict__.get("x", None) ~ the may-be-None field self.x)
                sub = ast.parse(tgt[6:], mode="eval").body
                ast.copy_location(sub, node)
                ast.fix_missing_locations(sub)
                return self.ev(sub, st, ctx, k)
            if tgt == "noop":
                # logging / event hooks: arguments are not evaluated (assumed free of side effects on the modelled state)
                return k(NONE, st)
            if tgt.startswith("havoc:"):
                # unknown side-effect-free-on-modelled-state call returning an unconstrained value of the given type
                def hv(svs, st2):
                    if tgt[6:] in CLASSES and not CLASSES[tgt[6:]].isa:
                        # an unknown call returning a (new) instance of a contract class: allocated, not None
                        r0, st2 = self.alloc_obj(st2, tgt[6:], "r")
                        return k(r0, st2)
                    r = self.fresh_sv("r", tgt[6:])
                    if r.kind == "v" and HAS_MAYBE_FIELDS():
                        st2 = st2.assume(r.t != L.sentinel("deleted_attr"))
                    k(r, st2)
                return self.ev_list(node.args, st, ctx, hv)
            if tgt == "tuple":
                return self.ev_list(node.args, st, ctx, lambda svs, st2: k(SV("tuple", items=list(svs)), st2))
            if tgt == "newdeque":
                def mk(svs, st1):
                    r, st2 = self.alloc_obj(st1, "deque", "dq")
                    k(r, self.hset(st2, "$seq", r.t, self.as_seq(svs[0], st1) if svs else L.sempty))
                return self.ev_list(node.args, st, ctx, mk)
            if tgt.startswith("newobj:"):
                # a fresh instance of a contract class whose may-be-absent attributes are all absent (e.g. threading.local())
                cn = tgt[7:]
                r, st2 = self.alloc_obj(st, cn, "obj")
                if CLASSES[cn].isa == "dict":
                    st2 = self.hset(st2, "$dkeys", r.t, L.sempty)       # a new, empty container
                elif CLASSES[cn].isa == "list":
                    st2 = self.hset(st2, "$seq", r.t, L.sempty)
                elif CLASSES[cn].isa == "set":
                    st2 = self.hset(st2, "$set", r.t, K(V, False))
                for fname, fty in CLASSES[cn].fields.items():
                    if fty.startswith("maybe:"):
                        st2 = self.hset(st2, fname, r.t, L.sentinel("deleted_attr"))
                return k(r, st2)
            if tgt == "ddset":
                r, st2 = self.alloc_obj(st, "ddset", "dd")
                st2 = self.hset(st2, "$dd", r.t, K(V, K(V, False)))
                st2 = self.hset(st2, "$ddkeys", r.t, K(V, False))
                return k(r, st2)
            if tgt in FUNCS:
                recv_node = f.value if isinstance(f, ast.Attribute) and FUNCS[tgt].cls else None
                return self.ev_contract_call(FUNCS[tgt], recv_node, node, st, ctx, k)
            if tgt.startswith("builtin:"):
                # e.g. "set.add" spelled through an alias
                _, cname, mname = tgt.split(":")
                return self.ev_list(node.args, st, ctx, lambda svs, st2: self.builtin_method(cname, mname, svs[0], svs[1:], node, st2, ctx, k))
            raise ContractError(f"callee mapping {txt} -> {tgt}?")
        if isinstance(f, ast.Name):
            n = f.id
            if n == "len" and self.len_method(node, st) is not None:
                empty = ast.Call(func=node.func, args=[], keywords=[])
                ast.copy_location(empty, node)
                return self.ev_contract_call(FUNCS[self.len_method(node, st)], node.args[0], empty, st, ctx, k)
            if n in ("list", "set", "dict", "frozenset", "reversed", "sorted", "deque"):
                return self.ev_list(node.args, st, ctx, lambda svs, st2: self.construct_builtin(n, svs, node, st2, ctx, k))
            sv = st.env.get(n)
            if sv is not None and sv.kind == "py" and isinstance(sv.py, tuple) and sv.py[0] == "localdef":
                raise OutOfSubset("call of a local def")
            if n in CLASSES:
                return self.ev_construct(n, node, st, ctx, k)
            raise OutOfSubset(f"call of {n!r}: no contract (add it to callees)")
        if (isinstance(f, ast.Attribute) and isinstance(f.value, ast.Call) and isinstance(f.value.func, ast.Name) and f.value.func.id == "super"
                and not f.value.args and self.cls is not None and self.cls.isa):
            # super().append(x) in a subclass of a builtin container: the builtin's method on self
            recv = st.env["self"]
            return self.ev_list(node.args, st, ctx, lambda svs, st2: self.builtin_method(self.cls.isa, f.attr, recv, svs, node, st2, ctx, k))
        if isinstance(f, ast.Attribute) and txt == "self.__class__" and self.c.cls:
            self.assumptions.add("self.__class__ is the class itself (subclasses of the verified class are not considered)")
            return self.ev_construct(self.c.cls, node, st, ctx, k)
        if isinstance(f, ast.Attribute):
            base = f.value
            btxt = ast.unparse(base)
            # unbound builtin method:  set.add(self, x)
            if isinstance(base, ast.Name) and base.id in ("set", "list", "dict") and base.id not in st.env:
                if f.attr == "fromkeys":
                    return self.ev_list(node.args, st, ctx, lambda svs, st2: self.dict_fromkeys(svs, st2, k))
                return self.ev_list(node.args, st, ctx, lambda svs, st2: self.builtin_method(base.id, f.attr, svs[0], svs[1:], node, st2, ctx, k))
            if f.attr == "__new__":
                # X.__new__(X) / self.__new__(self.__class__)
                return self.ev_new(node, st, ctx, k)
            if btxt.endswith(".__class__") and False:
                pass
            def got_recv(recv, st2):
                if recv.kind == "py" and isinstance(recv.py, tuple) and recv.py[0] == "classof":
                    pass
                if recv.kind == "v":
                    h = recv.hint
                    if h and h.startswith("ddslot:"):
                        return self.ev_list(node.args, st2, ctx, lambda svs, st3: self.ddslot_method(recv, f.attr, svs, node, st3, ctx, k))
                    if h in CLASSES:
                        c = CLASSES[h]
                        mkey = self.lookup_method(c, f.attr)
                        if mkey is not None:
                            return self.ev_contract_call(FUNCS[mkey], None, node, st2, ctx, k, recv=recv)
                        if c.isa:
                            return self.ev_list(node.args, st2, ctx, lambda svs, st3: self.builtin_method(c.isa, f.attr, recv, svs, node, st3, ctx, k))
                        if self.lookup_field_type(c, f.attr) == "fn":
                            # a stored pure callable applied to arguments that are not pure expressions themselves
                            fsv = self.read_field(st2, recv, f.attr, Mode(spec=True))
                            return self.ev_list(node.args, st2, ctx, lambda svs, st3: k(self.apply_fn(fsv, svs), st3))
                        raise OutOfSubset(f"method {h}.{f.attr}: no contract")
                    if h in CONTAINER_HINTS:
                        return self.ev_list(node.args, st2, ctx, lambda svs, st3: self.builtin_method(h, f.attr, recv, svs, node, st3, ctx, k))
                raise OutOfSubset(f"method call {txt} on {recv}")
            return self.ev(base, st, ctx, got_recv)
        if isinstance(f, ast.Call) and ast.unparse(f) == "self.__class__":
            pass
        raise OutOfSubset(f"call form {txt}")
    E.ev_call = ev_call

    def lookup_method(self, c, name):
        if name in c.methods:
            return c.methods[name]
        for b in c.bases:
            if b in CLASSES:
                r = self.lookup_method(CLASSES[b], name)
                if r:
                    return r
        return None
    E.lookup_method = lookup_method

    # ---- object construction
    def ev_new(self, node, st, ctx, k):
        arg = node.args[0]
        t = ast.unparse(arg)
        cname = None
        if t in CLASSES:
            cname = t
        elif t == "self.__class__" or t == "cls":
            cname = self.c.cls
            self.assumptions.add("self.__class__ is the class itself (subclasses of the verified class are not considered)")
        if cname is None:
            raise OutOfSubset(f"__new__ of {t}")
        r, st2 = self.alloc_obj(st, cname, "obj")
        if CLASSES[cname].isa == "set":
            st2 = self.hset(st2, "$set", r.t, K(V, False))
        k(r, st2)
    E.ev_new = ev_new

    def ev_construct(self, cname, node, st, ctx, k):
        c = CLASSES[cname]
        mkey = self.lookup_method(c, "__init__")
        r, st2 = self.alloc_obj(st, cname, "obj")
        if c.isa == "set":
            st2 = self.hset(st2, "$set", r.t, K(V, False))
        if mkey is None:
            raise OutOfSubset(f"constructor of {cname}: no __init__ contract")
        self.ev_contract_call(FUNCS[mkey], None, node, st2, ctx, lambda _res, st3: k(r, st3), recv=r)
    E.ev_construct = ev_construct

    def construct_builtin(self, n, svs, node, st, ctx, k):
        if n == "list":
            sq = self.as_seq(svs[0], st) if svs else L.sempty
            r, st2 = self.new_list(st, sq)
            return k(r, st2)
        if n in ("set", "frozenset"):
            ss = self.as_set(svs[0], st) if svs else K(V, False)
            r, st2 = self.new_set(st, ss)
            return k(r, st2)
        if n == "dict":
            if svs:
                raise OutOfSubset("dict(x)")
            r, st2 = self.new_dict(st)
            return k(r, st2)
        if n == "reversed":
            return k(SV("seq", L.rev(self.as_seq(svs[0], st))), st)
        raise OutOfSubset(f"constructor {n}")
    E.construct_builtin = construct_builtin

    def dict_fromkeys(self, svs, st, k):
        sq = self.as_seq(svs[0], st)
        keys = L.addall(L.sempty, sq)
        r, st2 = self.new_dict(st, keys)
        k(r, st2)
    E.dict_fromkeys = dict_fromkeys

    # ---- defaultdict(set) slots
    def ddslot_method(self, slot, meth, args, node, st, ctx, k):
        d = st.env[slot.hint[7:]]
        dd = self.hget(st, "$dd", d.t)
        cur = Select(dd, slot.t)
        if meth == "add":
            x = self.to_v(args[0])
            st2 = self.hset(st, "$dd", d.t, Store(dd, slot.t, Store(cur, x, True)))
            return k(NONE, st2)
        raise OutOfSubset(f"defaultdict slot method {meth}")
    E.ddslot_method = ddslot_method

    # ---- builtin container methods (mutators + allocating observers)
    def builtin_method(self, cname, meth, recv, args, node, st, ctx, k):
        h = getattr(self, f"bm_{cname}_{meth}", None)
        if h is None:
            ph = getattr(self, "pm_" + meth, None)
            if ph is not None:
                checks = []
                sv = ph(recv, args, node, st, Mode(False, None, checks))
                return self.branch_checks(checks, st, ctx, lambda st2: k(sv, st2))
            raise OutOfSubset(f"{cname}.{meth} not modelled")
        return h(recv, args, node, st, ctx, k)
    E.builtin_method = builtin_method

    # list
    def bm_list_append(self, recv, args, node, st, ctx, k):
        s = self.hget(st, "$seq", recv.t)
        k(NONE, self.hset(st, "$seq", recv.t, L.app(s, self.to_v(args[0]))))
    E.bm_list_append = bm_list_append
    E.bm_deque_append = bm_list_append

    def bm_list_extend(self, recv, args, node, st, ctx, k):
        s = self.hget(st, "$seq", recv.t)
        k(NONE, self.hset(st, "$seq", recv.t, L.cat(s, self.as_seq(args[0], st))))
    E.bm_list_extend = bm_list_extend
    E.bm_deque_extend = bm_list_extend

    def bm_list_insert(self, recv, args, node, st, ctx, k):
        s = self.hget(st, "$seq", recv.t)
        n = L.slen(s)
        i = self.as_int(args[0])
        j = If(i < 0, If(i + n < 0, IntVal(0), i + n), If(i > n, n, i))
        new = L.cat(L.app(L.slc(s, IntVal(0), j), self.to_v(args[1])), L.slc(s, j, n))
        k(NONE, self.hset(st, "$seq", recv.t, new))
    E.bm_list_insert = bm_list_insert

    def bm_list_pop(self, recv, args, node, st, ctx, k):
        s = self.hget(st, "$seq", recv.t)
        n = L.slen(s)
        i = self.as_int(args[0]) if args else IntVal(-1)
        j = self.norm_index(i, n)
        def cont(st2):
            new = L.cat(L.slc(s, IntVal(0), j), L.slc(s, j + 1, n))
            k(SV("v", L.at(s, j), self.types.get("elems:" + ast.unparse(node.func.value)) if isinstance(node.func, ast.Attribute) else None), self.hset(st2, "$seq", recv.t, new))
        self.branch_checks([(And(0 <= j, j < n), "IndexError", node)], st, ctx, cont)
    E.bm_list_pop = bm_list_pop
    E.bm_deque_pop = bm_list_pop

    def bm_deque_popleft(self, recv, args, node, st, ctx, k):
        s = self.hget(st, "$seq", recv.t)
        n = L.slen(s)
        def cont(st2):
            k(SV("v", L.at(s, IntVal(0)), None), self.hset(st2, "$seq", recv.t, L.slc(s, IntVal(1), n)))
        self.branch_checks([(n > 0, "IndexError", node)], st, ctx, cont)
    E.bm_deque_popleft = bm_deque_popleft

    def bm_deque_appendleft(self, recv, args, node, st, ctx, k):
        s = self.hget(st, "$seq", recv.t)
        k(NONE, self.hset(st, "$seq", recv.t, L.cat(L.app(L.sempty, self.to_v(args[0])), s)))
    E.bm_deque_appendleft = bm_deque_appendleft

    def bm_list___setitem__(self, recv, args, node, st, ctx, k):
        s = self.hget(st, "$seq", recv.t)
        n = L.slen(s)
        if args[0].kind != "int":
            raise OutOfSubset("list.__setitem__ with a non-integer index")
        j = self.norm_index(args[0].t, n)
        self.branch_checks([(And(0 <= j, j < n), "IndexError", node)], st, ctx,
                           lambda st2: k(NONE, self.hset(st2, "$seq", recv.t, L.upd(s, j, self.to_v(args[1])))))
    E.bm_list___setitem__ = bm_list___setitem__

    def bm_list___delitem__(self, recv, args, node, st, ctx, k):
        s = self.hget(st, "$seq", recv.t)
        n = L.slen(s)
        if args[0].kind != "int":
            raise OutOfSubset("list.__delitem__ with a non-integer index")
        j = self.norm_index(args[0].t, n)
        self.branch_checks([(And(0 <= j, j < n), "IndexError", node)], st, ctx,
                           lambda st2: k(NONE, self.hset(st2, "$seq", recv.t, L.cat(L.slc(s, IntVal(0), j), L.slc(s, j + 1, n)))))
    E.bm_list___delitem__ = bm_list___delitem__

    def bm_list_remove(self, recv, args, node, st, ctx, k):
        s = self.hget(st, "$seq", recv.t)
        x = self.to_v(args[0])
        self.assumptions.add("list.remove/index/`in` compare by identity-or-equality of the modelled value (V equality); user-defined __eq__ is not modelled")
        self.branch_checks([(L.mem(s, x), "ValueError", node)], st, ctx,
                           lambda st2: k(NONE, self.hset(st2, "$seq", recv.t, self.seq_remove(s, x))))
    E.bm_list_remove = bm_list_remove
    E.bm_deque_remove = bm_list_remove

    def bm_list_clear(self, recv, args, node, st, ctx, k):
        k(NONE, self.hset(st, "$seq", recv.t, L.sempty))
    E.bm_list_clear = bm_list_clear
    E.bm_deque_clear = bm_list_clear

    def bm_list_copy(self, recv, args, node, st, ctx, k):
        r, st2 = self.new_list(st, self.hget(st, "$seq", recv.t))
        k(r, st2)
    E.bm_list_copy = bm_list_copy

    def bm_list_reverse(self, recv, args, node, st, ctx, k):
        k(NONE, self.hset(st, "$seq", recv.t, L.rev(self.hget(st, "$seq", recv.t))))
    E.bm_list_reverse = bm_list_reverse

    # set
    def bm_set_add(self, recv, args, node, st, ctx, k):
        s = self.hget(st, "$set", recv.t)
        k(NONE, self.hset(st, "$set", recv.t, Store(s, self.to_v(args[0]), True)))
    E.bm_set_add = bm_set_add

    def bm_set_discard(self, recv, args, node, st, ctx, k):
        s = self.hget(st, "$set", recv.t)
        k(NONE, self.hset(st, "$set", recv.t, Store(s, self.to_v(args[0]), False)))
    E.bm_set_discard = bm_set_discard

    def bm_set_remove(self, recv, args, node, st, ctx, k):
        s = self.hget(st, "$set", recv.t)
        x = self.to_v(args[0])
        self.branch_checks([(Select(s, x), "KeyError", node)], st, ctx,
                           lambda st2: k(NONE, self.hset(st2, "$set", recv.t, Store(s, x, False))))
    E.bm_set_remove = bm_set_remove

    def bm_set_pop(self, recv, args, node, st, ctx, k):
        ss = self.hget(st, "$set", recv.t)
        def cont(st2):
            r = self.fresh("popped", V)       # an arbitrary member
            st3 = st2.assume(Select(ss, r))
            k(SV("v", r, None), self.hset(st3, "$set", recv.t, Store(ss, r, False)))
        self.branch_checks([(self.set_nonempty(ss), "KeyError", node)], st, ctx, cont)
    E.bm_set_pop = bm_set_pop

    def bm_set_clear(self, recv, args, node, st, ctx, k):
        k(NONE, self.hset(st, "$set", recv.t, K(V, False)))
    E.bm_set_clear = bm_set_clear

    def bm_set___init__(self, recv, args, node, st, ctx, k):
        ss = self.as_set(args[0], st) if args else K(V, False)
        k(NONE, self.hset(st, "$set", recv.t, ss))
    E.bm_set___init__ = bm_set___init__

    def _setop(self, recv, args, st, fn):
        a = self.hget(st, "$set", recv.t) if recv.kind == "v" else recv.t
        others = [self.as_set(o, st) for o in args]
        return self.def_set(lambda x: fn(Select(a, x), [Select(o, x) for o in others]))
    E._setop = _setop

    def bm_set_update(self, recv, args, node, st, ctx, k):
        k(NONE, self.hset(st, "$set", recv.t, self._setop(recv, args, st, lambda a, os: Or(a, *os))))
    E.bm_set_update = bm_set_update

    def bm_set_difference_update(self, recv, args, node, st, ctx, k):
        k(NONE, self.hset(st, "$set", recv.t, self._setop(recv, args, st, lambda a, os: And(a, *[Not(o) for o in os]))))
    E.bm_set_difference_update = bm_set_difference_update

    def bm_set_intersection_update(self, recv, args, node, st, ctx, k):
        k(NONE, self.hset(st, "$set", recv.t, self._setop(recv, args, st, lambda a, os: And(a, *os))))
    E.bm_set_intersection_update = bm_set_intersection_update

    def bm_set_symmetric_difference_update(self, recv, args, node, st, ctx, k):
        k(NONE, self.hset(st, "$set", recv.t, self._setop(recv, args, st, lambda a, os: a != os[0])))
    E.bm_set_symmetric_difference_update = bm_set_symmetric_difference_update

    def _setop_new(self, fn):
        def h(self, recv, args, node, st, ctx, k):
            r, st2 = self.new_set(st, self._setop(recv, args, st, fn))
            k(r, st2)
        return h
    E.bm_set_difference = _setop_new(None, lambda a, os: And(a, *[Not(o) for o in os]))
    E.bm_set_intersection = _setop_new(None, lambda a, os: And(a, *os))
    E.bm_set_union = _setop_new(None, lambda a, os: Or(a, *os))
    E.bm_set_symmetric_difference = _setop_new(None, lambda a, os: a != os[0])
    E.bm_set_copy = _setop_new(None, lambda a, os: a)

    # dict
    def bm_dict_pop(self, recv, args, node, st, ctx, k):
        kk = self.to_v(args[0])
        keys = self.hget(st, "$dkeys", recv.t)
        val = SV("v", Select(self.hget(st, "$dval", recv.t), kk), self.types.get("values:" + ast.unparse(node.func.value)) if isinstance(node.func, ast.Attribute) else None)
        has = L.mem(keys, kk)
        def present(st2):
            k(val, self.hset(st2, "$dkeys", recv.t, self.seq_remove(keys, kk)))
        if len(args) > 1:
            if getattr(self, "_discarded_call", None) is node:
                # d.pop(k, default) as a statement: one merged successor state instead of a present/absent fork
                return k(NONE, self.hset(st, "$dkeys", recv.t, If(has, self.seq_remove(keys, kk), keys)))
            return self.fork(has, st, present, lambda st2: k(args[1], st2), node)
        self.branch_checks([(has, "KeyError", node)], st, ctx, present)
    E.bm_dict_pop = bm_dict_pop

    def bm_dict___setitem__(self, recv, args, node, st, ctx, k):
        kk = self.to_v(args[0])
        keys = self.hget(st, "$dkeys", recv.t)
        vals = self.hget(st, "$dval", recv.t)
        st2 = self.hset(st, "$dval", recv.t, Store(vals, kk, self.to_v(args[1])))
        k(NONE, self.hset(st2, "$dkeys", recv.t, If(L.mem(keys, kk), keys, L.app(keys, kk))))
    E.bm_dict___setitem__ = bm_dict___setitem__

    def bm_dict___getitem__(self, recv, args, node, st, ctx, k):
        kk = self.to_v(args[0])
        keys = self.hget(st, "$dkeys", recv.t)
        self.branch_checks([(L.mem(keys, kk), "KeyError", node)], st, ctx,
                           lambda st2: k(SV("v", Select(self.hget(st2, "$dval", recv.t), kk), None), st2))
    E.bm_dict___getitem__ = bm_dict___getitem__

    def bm_dict___delitem__(self, recv, args, node, st, ctx, k):
        kk = self.to_v(args[0])
        keys = self.hget(st, "$dkeys", recv.t)
        self.branch_checks([(L.mem(keys, kk), "KeyError", node)], st, ctx,
                           lambda st2: k(NONE, self.hset(st2, "$dkeys", recv.t, self.seq_remove(keys, kk))))
    E.bm_dict___delitem__ = bm_dict___delitem__

    def bm_dict_clear(self, recv, args, node, st, ctx, k):
        k(NONE, self.hset(st, "$dkeys", recv.t, L.sempty))
    E.bm_dict_clear = bm_dict_clear

    def bm_dict_setdefault(self, recv, args, node, st, ctx, k):
        kk = self.to_v(args[0])
        keys = self.hget(st, "$dkeys", recv.t)
        vals = self.hget(st, "$dval", recv.t)
        dflt = args[1] if len(args) > 1 else NONE
        has = L.mem(keys, kk)
        hint = self.types.get("values:" + ast.unparse(node.func.value)) if isinstance(node.func, ast.Attribute) else None
        def present(st2):
            k(SV("v", Select(vals, kk), hint), st2)
        def absent(st2):
            st3 = self.hset(st2, "$dkeys", recv.t, L.app(keys, kk))
            st3 = self.hset(st3, "$dval", recv.t, Store(vals, kk, self.to_v(dflt)))
            k(dflt, st3)
        self.fork(has, st, present, absent, node)
    E.bm_dict_setdefault = bm_dict_setdefault

    def bm_dict_copy(self, recv, args, node, st, ctx, k):
        r, st2 = self.new_dict(st, self.hget(st, "$dkeys", recv.t), self.hget(st, "$dval", recv.t))
        k(r, st2)
    E.bm_dict_copy = bm_dict_copy

    def bm_dict_popitem(self, recv, args, node, st, ctx, k):
        keys = self.hget(st, "$dkeys", recv.t)
        n = L.slen(keys)
        def cont(st2):
            kk = L.at(keys, n - 1)
            val = Select(self.hget(st2, "$dval", recv.t), kk)
            k(SV("tuple", items=[SV("v", kk, None), SV("v", val, None)]), self.hset(st2, "$dkeys", recv.t, L.slc(keys, IntVal(0), n - 1)))
        self.branch_checks([(n > 0, "KeyError", node)], st, ctx, cont)
    E.bm_dict_popitem = bm_dict_popitem

    def bm_dict_update(self, recv, args, node, st, ctx, k):
        o = args[0]
        keys = self.hget(st, "$dkeys", recv.t)
        vals = self.hget(st, "$dval", recv.t)
        if o.kind == "py" and isinstance(o.py, tuple) and o.py[0] == "pairs":
            okeys, ovals = o.py[1], o.py[2]
        elif o.kind == "v" and is_dict_hint(o.hint):
            okeys = self.hget(st, "$dkeys", o.t)
            ovals = self.hget(st, "$dval", o.t)
        else:
            raise OutOfSubset("dict.update(non-dict)")
        nv = self.fresh("dval", MapS)
        x = Const("x", V)
        self.extra_axioms.append(ForAll([x], Select(nv, x) == If(L.mem(okeys, x), Select(ovals, x), Select(vals, x)), patterns=[Select(nv, x)]))
        st2 = self.hset(st, "$dkeys", recv.t, L.addall(keys, okeys))
        st2 = self.hset(st2, "$dval", recv.t, nv)
        k(NONE, st2)
    E.bm_dict_update = bm_dict_update

    # ------------------------------------------------------------------ modular calls against contracts
    def callee_params(self, fnc):
        if fnc.params is not None:
            return list(fnc.params), {}
        node, _, _ = find_function(fnc.path, fnc.qualname)
        a = node.args
        names = [x.arg for x in a.posonlyargs + a.args]
        defaults = {}
        for nm, d in zip(reversed(names), reversed(a.defaults)):
            defaults[nm] = d
        for x, d in zip(a.kwonlyargs, a.kw_defaults):
            names.append(x.arg)
            if d is not None:
                defaults[x.arg] = d
        if a.vararg:
            names.append("*" + a.vararg.arg)
        return names, defaults
    E.callee_params = callee_params

    def sub(self, fnc):
        s = Exec.__new__(Exec)
        s.__dict__.update(self.__dict__)
        s.c = fnc
        s.variant = {}
        s.raises = dict(fnc.raises)
        s.may_raise = dict(fnc.may_raise)
        s.types = dict(fnc.types)
        s.cls = CLASSES.get(fnc.cls) if fnc.cls else None
        return s
    E.sub = sub

    def ev_contract_call(self, fnc, recv_node, node, st, ctx, k, recv=None):
        def with_recv(r, st1):
            def with_args(svs, st2):
                kws = {}
                def with_kw(kwsvs, st3):
                    for kw, v in zip(node.keywords, kwsvs):
                        kws[kw.arg] = v
                    self.do_contract_call(fnc, r, svs, kws, node, st3, ctx, k)
                self.ev_list([kw.value for kw in node.keywords], st2, ctx, with_kw)
            self.ev_list(node.args, st1, ctx, with_args)
        if recv is not None:
            return with_recv(recv, st)
        if recv_node is not None:
            return self.ev(recv_node, st, ctx, with_recv)
        with_recv(None, st)
    E.ev_contract_call = ev_contract_call

    def do_contract_call(self, fnc, recv, args, kws, node, st, ctx, k):
        sub = self.sub(fnc)
        names, defaults = self.callee_params(fnc)
        env = {}
        pos = list(args)
        if names and names[0] in ("self", "cls") and (fnc.cls or recv is not None):
            if recv is None:
                recv = pos.pop(0)
            env[names[0]] = SV("v", recv.t, (fnc.cls or fnc.types.get("self")) if recv.hint not in CLASSES else recv.hint)
            names = names[1:]
        for nm in names:
            if nm.startswith("*"):
                env[nm[1:]] = SV("tuple", items=pos)
                pos = []
            elif pos:
                env[nm] = pos.pop(0)
            elif nm in kws:
                env[nm] = kws[nm]
            elif nm in defaults:
                env[nm] = self.pev(defaults[nm], st, Mode(True))
            else:
                raise ContractError(f"call of {fnc.key}: missing argument {nm}")
        # rigid ghost parameters of the callee, given by the call-site spec as expressions over the caller's state
        for gname, gexpr in (getattr(node, "_ghost_binds", None) or {}).items():
            gsv = self.pev(ast.parse(gexpr, mode="eval").body, st, Mode(True, self.st0))
            if type_hint(fnc.types.get(gname, "v"))[0] == "seq" and gsv.kind != "seq":
                gsv = SV("seq", self.as_seq(gsv, st))
            env[gname] = gsv
        # coerce hints from callee types
        for nm, ty in fnc.types.items():
            if nm in env and env[nm].kind == "v" and env[nm].hint is None:
                kind, hint = type_hint(ty)
                if kind == "v":
                    env[nm] = SV("v", env[nm].t, hint)
        cst = st.copy(env=env)
        m_pre = Mode(True, None, None, None)
        for i, cl in enumerate(fnc.requires):
            g = sub.truth(sub.pev(ast.parse(cl, mode="eval").body, cst, m_pre), cst)
            self.oblige(st, g, f"call[{fnc.qualname}].pre[{i}]", node)
        if fnc.abstract:
            self.assumptions.add(f"assumed contract (callee not verified here): {fnc.key}")
        self.callees_used = getattr(self, "callees_used", set())
        self.callees_used.add(fnc.key)
        # exceptional outcomes
        for exc_name, cond in list(fnc.raises.items()) + list(fnc.may_raise.items()):
            c = sub.truth(sub.pev(ast.parse(cond, mode="eval").body, cst, m_pre), cst)
            if is_false(simplify(c)) or self.quick_unsat(st, c):
                continue
            bad = st.assume(c)
            bad = bad.copy(notes=bad.notes + (f"L{self.rel_line(node)}:{exc_name}",))
            try:
                bad = bad.copy(ghost=dict(bad.ghost, **{"$tried:" + ast.unparse(node.func): True}))     # attempted("<callee text>")
            except Exception:
                pass
            if fnc.modifies and exc_name in fnc.may_raise:
                # the callee may have changed anything in its frame before raising: havoc the frame, then assume what its
                # contract says about exceptional exits (exc_ensures of this exception class or of a base class of it)
                bspots = []
                star = False
                for d in fnc.modifies:
                    if d == "*":
                        star = True
                        continue
                    bspots += sub.modset_entry(d, cst, m_pre)
                if star:
                    self.materialise_all(bad)
                    bad = bad.copy(heap={nm: self.fresh("H_" + nm.replace("$", "S_"), arr.sort()) for nm, arr in bad.heap.items()})
                for nm, obj in bspots:
                    bad = self.havoc_spot(bad, nm, obj)
                na = self.fresh("alloc", SetS)
                xx = Const("x", V)
                bad = bad.assume(ForAll([xx], Implies(Select(bad.alloc, xx), Select(na, xx)), patterns=[Select(bad.alloc, xx)])).copy(alloc=na)
                bpost = bad.copy(env=env)
                efacts = []
                for ename, clauses in fnc.exc_ensures.items():
                    if exc_matches(exc_name.split("@")[0], ename):
                        for cl in clauses:
                            try:
                                efacts.append(sub.truth(sub.pev(ast.parse(cl, mode="eval").body, bpost, Mode(True, cst, None, None)), bpost))
                            except (OutOfSubset, ContractError):
                                pass        # clause about the callee's locals at the raise: not visible to the caller
                # frame condition of the exceptional exit (unallocated/other objects untouched) as for the normal exit
                bad = bad.assume(*efacts) if efacts else bad
            ctx.exc(exc_name.split("@")[0], bad, node)
            if exc_name in fnc.raises:
                st = st.assume(Not(c))
                cst = cst.copy(pc=st.pc)
        # havoc the frame
        post = st
        spots = []
        for d in fnc.modifies:
            if d == "*":
                self.materialise_all(post)
                heap = {nm: self.fresh("H_" + nm.replace("$", "S_"), arr.sort()) for nm, arr in post.heap.items()}
                post = post.copy(heap=heap)
                continue
            spots += sub.modset_entry(d, cst, m_pre)
        for nm, obj in spots:
            post = self.havoc_spot(post, nm, obj)
        # result
        if fnc.fresh_result:
            res, post = self.alloc_obj(post, type_hint(fnc.returns)[1], "res")
        elif fnc.returns == "none":
            res = NONE
        else:
            res = self.fresh_sv("res", fnc.returns)
        if fnc.modifies or fnc.fresh_result:
            # callee may allocate
            na = self.fresh("alloc", SetS)
            x = Const("x", V)
            post = post.assume(ForAll([x], Implies(Select(post.alloc, x), Select(na, x)), patterns=[Select(post.alloc, x)]))
            post = post.copy(alloc=na)
        cpost = post.copy(env=env)
        m_post = Mode(True, cst, None, res)
        facts = []
        for cl in fnc.ensures:
            facts.append(sub.truth(sub.pev(ast.parse(cl, mode="eval").body, cpost, m_post), cpost))
        ccls = CLASSES.get(fnc.cls) if fnc.cls else None
        if ccls and ccls.rep and fnc.check_rep and "self" in env:
            for cl in ccls.rep:
                facts.append(sub.truth(sub.pev(ast.parse(cl, mode="eval").body, cpost, Mode(True)), cpost))
        rk, rh = type_hint(fnc.returns) if fnc.returns != "none" else ("v", "none")
        if rh in CLASSES and CLASSES[rh].rep and fnc.fresh_result:
            rst = cpost.copy(env={"self": res})
            for cl in CLASSES[rh].rep:
                facts.append(sub.truth(sub.pev(ast.parse(cl, mode="eval").body, rst, Mode(True)), rst))
        post = post.assume(*facts) if facts else post
        # remember the state right after this call: postconditions may refer to it with after("<callee text>", expr)
        try:
            label = ast.unparse(node.func)
        except Exception:
            label = fnc.qualname
        snap_state = post.copy(env=dict(post.env, **{"$result": res}))
        post = post.copy(ghost=dict(post.ghost, **{"$after:" + label: snap_state, "$tried:" + label: True}))
        def finish(post2):
            if self.c.monitor and label in self.c.monitor.get("calls", []) and not post2.ghost.get("$lockdepth"):
                post2 = self.interfere(post2, node, "after-call")
            k(res, post2)
        gcall = (getattr(self.c, "ghost_call", None) or {}).get(label)
        if gcall:
            # ghost statements executed atomically with the callee's effect (before other threads can interfere); `_r` = the result
            stmts = [ast.parse(g).body[0] for g in gcall]
            for g in stmts:
                ast.copy_location(g, node)
                ast.fix_missing_locations(g)
            saved_after, mon = self.c.ghost_after, self.c.monitor
            self.c.ghost_after, self.c.monitor = {}, None
            def after_ghost(stg):
                self.c.ghost_after, self.c.monitor = saved_after, mon
                env = dict(stg.env)
                env.pop("_r", None)
                finish(stg.copy(env=env))
            try:
                self.ex_block(stmts, post.bind("_r", res), ctx.with_(k=after_ghost))
            finally:
                self.c.ghost_after, self.c.monitor = saved_after, mon
            return
        finish(post)
    E.do_contract_call = do_contract_call


_patch_calls()


# ====================================================================== entry / exit
def _patch_run():
    E = Exec

    def param_facts(self, name, sv, ty, st):
        """typing facts assumed for a parameter / free variable of contract type ty"""
        fs = []
        if sv.kind != "v":
            return fs
        if HAS_MAYBE_FIELDS():
            fs.append(sv.t != L.sentinel("deleted_attr"))     # <absent attribute> is not a program value
        if isinstance(ty, str) and ty.startswith("opt:"):
            inner = self.param_facts(name, sv, ty[4:], st)
            return [Or(sv.t == L.None_, And(*inner))] if inner else []
        h = sv.hint
        if h in ("list", "set", "dict", "deque", "frozenset", "ddset") or h in CLASSES:
            fs += [Select(st.alloc, sv.t), L.is_ref(sv.t), sv.t != L.None_]
            if h in CLASSES:
                ids = [cls_id(n) for n in subclasses_of(h)]
                fs.append(Or(*[L.tyid(sv.t) == i for i in ids]))
            else:
                fs.append(L.tyid(sv.t) == cls_id(h))
        if h == "fn":
            fs += [L.is_ref(sv.t), sv.t != L.None_]
        return fs
    E.param_facts = param_facts

    def run(self):
        a = self.node.args
        env = {}
        alloc0 = Const("alloc0", SetS)
        self.alloc0 = alloc0
        st = St(env, {}, (), alloc0, out=L.sempty)
        facts = []
        pnames = [x.arg for x in a.posonlyargs + a.args + a.kwonlyargs]
        if a.vararg:
            pnames.append(a.vararg.arg)
        if a.kwarg:
            # **kw is bound to an opaque value; it may only be forwarded to calls whose spec does not look at it
            pnames.append(a.kwarg.arg)
        self.param_names = pnames
        for nm in pnames:
            ty = self.types.get(nm)
            if ty is None:
                if nm in ("self", "cls") and self.c.cls:
                    ty = self.c.cls
                else:
                    ty = "v"
            sv = self.fresh_sv(nm, ty)
            env[nm] = sv
            for it in (sv.items if sv.kind == "tuple" else [sv]):
                facts += self.param_facts(nm, it, ty, st)
        for nm, ty in self.types.items():
            if nm in env or nm.startswith(".") or ":" in nm:
                continue
            sv = self.fresh_sv(nm, ty)
            env[nm] = sv
            facts += self.param_facts(nm, sv, ty, st)
        st = st.assume(*facts)
        # ghost initialisation
        for g, (ty, init) in self.c.ghost.items():
            st.ghost[g] = self.pev(ast.parse(init, mode="eval").body, st, Mode(True))
        m = Mode(True)
        pre = []
        for cl in self.requires:
            pre.append(self.truth(self.pev(ast.parse(cl, mode="eval").body, st, m), st))
        for cl in self.variant.get("extra_requires", []):
            # exclusion clauses of known findings: a clause that does not type-check in this case split does not apply to it
            try:
                pre.append(self.truth(self.pev(ast.parse(cl, mode="eval").body, st, m), st))
            except (OutOfSubset, ContractError):
                pass
        if self.cls and self.cls.rep and self.c.assume_rep and "self" in env:
            for cl in self.cls.rep:
                pre.append(self.truth(self.pev(ast.parse(cl, mode="eval").body, st, m), st))
        # parameters of contract classes satisfy their rep invariant too
        for nm, sv in list(env.items()):
            if nm != "self" and sv.kind == "v" and sv.hint in CLASSES and CLASSES[sv.hint].rep:
                rst = st.copy(env={"self": sv})
                for cl in CLASSES[sv.hint].rep:
                    pre.append(self.sub_rep(sv.hint).truth(self.sub_rep(sv.hint).pev(ast.parse(cl, mode="eval").body, rst, m), rst))
        st = st.assume(*pre)
        self.st0 = st
        self.n_pre = len(st.pc)
        ctx = Ctx(lambda s: self.at_return(NONE, s, None), self.at_return, self.at_raise)
        self.ex_block(self.node.body, st, ctx)
        return self.obls
    E.run = run

    def sub_rep(self, cname):
        class _C:
            pass
        s = Exec.__new__(Exec)
        s.__dict__.update(self.__dict__)
        return s
    E.sub_rep = sub_rep

    def coerce_result(self, sv, st):
        ty = self.c.returns
        if ty in ("v", None) or sv.kind == "tuple":
            return sv
        kind, hint = type_hint(ty) if ty != "none" else ("v", "none")
        if kind == "int" and sv.kind != "int":
            return SV("int", self.as_int(sv))
        if kind == "bool" and sv.kind != "bool":
            if sv.kind == "v":
                return SV("bool", sv.t == L.True_)
        if kind == "v" and sv.kind == "v" and sv.hint is None:
            return SV("v", sv.t, hint)
        return sv
    E.coerce_result = coerce_result

    def final_checks(self, st, node, tag, result=None, exceptional=False):
        m = Mode(True, self.st0, None, result, {"out": SV("seq", st.out)})
        # frame
        modspots = {}
        wild = False
        for d in self.c.modifies:
            if d == "*":
                wild = True
                continue
            for nm, obj in self.modset_entry(d, self.st0, Mode(True)):
                modspots.setdefault(nm, []).append(obj)
        if not wild:
            for nm, arr in st.heap.items():
                base = self.heap0.get(nm)
                if base is None or arr is base or arr.eq(base):
                    continue
                o = self.fresh("fo", V)
                excl = [self.spot_excl(x, o) for x in modspots.get(nm, [])]
                g = ForAll([o], Implies(And(Select(self.alloc0, o), *excl), Select(arr, o) == Select(base, o)),
                           patterns=[Select(arr, o)])
                self.oblige(st, g, f"{tag}.frame[{nm}]", node)
        # representation invariant
        if self.cls and self.cls.rep and self.c.check_rep and "self" in self.st0.env and not exceptional:
            rst = st.copy(env=dict(st.env, self=self.st0.env["self"]))
            for i, cl in enumerate(self.cls.rep):
                g = self.truth(self.pev(ast.parse(cl, mode="eval").body, rst, Mode(True, self.st0)), rst)
                self.oblige(st, g, f"{tag}.rep[{i}]", node)
    E.final_checks = final_checks

    def at_return(self, sv, st, node):
        self.paths += 1
        sv = self.coerce_result(sv, st)
        tag = "return"
        # postconditions are evaluated with the *parameters'* entry values (Python rebinding of a parameter is local)
        rst = st.copy(env=dict(st.env, **{n: self.st0.env[n] for n in self.st0.env}))
        m = Mode(True, self.st0, None, sv, {"out": SV("seq", st.out)})
        for i, cl in enumerate(list(self.c.ensures) + list(self.variant.get("ensures", [])) + list(self.c.s_ensures)):
            g = self.truth(self.pev(ast.parse(cl, mode="eval").body, rst, m), rst)
            self.oblige(st, g, f"{tag}.ensures[{i}]", node)
        for exc_name, cond in self.raises.items():
            c = self.truth(self.pev(ast.parse(cond, mode="eval").body, self.st0, Mode(True)), self.st0)
            self.oblige(st, Not(c), f"{tag}.must-raise[{exc_name}]", node)
        if sv.kind == "v" and sv.hint in CLASSES and CLASSES[sv.hint].rep and self.c.fresh_result:
            r2 = st.copy(env={"self": sv})
            for i, cl in enumerate(CLASSES[sv.hint].rep):
                g = self.truth(self.pev(ast.parse(cl, mode="eval").body, r2, Mode(True)), r2)
                self.oblige(st, g, f"{tag}.result-rep[{i}]", node)
        if self.c.fresh_result and sv.kind == "v":
            self.oblige(st, Not(Select(self.alloc0, sv.t)), f"{tag}.result-fresh", node)
        self.final_checks(rst, node, tag, sv)
    E.at_return = at_return

    def at_raise(self, name, st, node):
        self.paths += 1
        conds = []
        for table in (self.raises, self.may_raise):
            for decl, cnd in table.items():
                if exc_matches(name, decl.split("@")[0]):
                    conds.append(cnd)
        if not conds:
            self.oblige(st, BoolVal(False), f"unreachable-raise[{name}]", node)
            return
        cond = " or ".join(f"({c})" for c in conds)
        spec = cond if isinstance(cond, str) else cond
        c = self.truth(self.pev(ast.parse(spec, mode="eval").body, self.st0, Mode(True)), self.st0)
        self.oblige(st, c, f"raise[{name}].allowed", node)
        ee = []
        for decl, cls_ in self.c.exc_ensures.items():
            if exc_matches(name, decl):
                ee += cls_
        for i, cl in enumerate(ee):
            g = self.truth(self.pev(ast.parse(cl, mode="eval").body, st, Mode(True, self.st0, None, None, {"out": SV("seq", st.out)})), st)
            self.oblige(st, g, f"raise[{name}].ensures[{i}]", node)
        rst = st.copy(env=dict(st.env, **{n: self.st0.env[n] for n in self.st0.env}))
        self.final_checks(rst, node, f"raise[{name}]", None, exceptional=True)
    E.at_raise = at_raise

    # ------------------------------------------------------------------ global hypotheses
    def global_hyps(self):
        hy = [f for _, f in L.axioms_cached()]
        hy += L.distinct_consts()
        hy += self.extra_axioms
        # allocation closure of the entry heap: fields and container elements of allocated objects are allocated
        o = Const("o", V)
        i = Int("i")
        x = Const("x", V)
        a0 = self.alloc0
        for nm, arr in self.heap0.items():
            rng = arr.sort().range()
            if rng == V:
                hy.append(ForAll([o], Implies(Select(a0, o), Select(a0, Select(arr, o))), patterns=[Select(arr, o)]))
            elif rng == Sq:
                hy.append(ForAll([o, i], Implies(And(Select(a0, o), 0 <= i, i < L.slen(Select(arr, o))), Select(a0, L.at(Select(arr, o), i))),
                                 patterns=[L.at(Select(arr, o), i)]))
            elif rng == MapS and nm == "$dval" and "$dkeys" in self.heap0:
                kk = Const("kk", V)
                hy.append(ForAll([o, kk], Implies(And(Select(a0, o), L.mem(Select(self.heap0["$dkeys"], o), kk)), Select(a0, Select(Select(arr, o), kk))),
                                 patterns=[Select(Select(arr, o), kk)]))
            elif rng == SetS and nm != "$ddkeys":
                hy.append(ForAll([o, x], Implies(And(Select(a0, o), Select(Select(arr, o), x)), Select(a0, x)),
                                 patterns=[Select(Select(arr, o), x)]))
        hy.append(And(Select(a0, L.None_), Select(a0, L.True_), Select(a0, L.False_)))
        hy.append(ForAll([i], Select(a0, L.ibox(i)), patterns=[L.ibox(i)]))
        # the elements of a tuple that exists at entry exist at entry
        hy.append(ForAll([x, i], Implies(And(Select(a0, x), L.is_tup(x), 0 <= i, i < L.slen(L.sunbox(x))), Select(a0, L.at(L.sunbox(x), i))),
                         patterns=[L.at(L.sunbox(x), i)]))
        # dict keys are duplicate free
        if "$dkeys" in self.heap0:
            hy.append(ForAll([o], L.nodup(Select(self.heap0["$dkeys"], o)), patterns=[Select(self.heap0["$dkeys"], o)]))
        # class ids of builtin kinds are distinct from each other by construction (cls_id)
        return hy
    E.global_hyps = global_hyps


_patch_run()
