#!/bin/sh
# Build /verif/.venv offline: python 3.12 (the repo's interpreter) + z3-solver + cvc5 + jsonschema from the
# local wheelhouse, with a .pth that adds /venv's site-packages (sqlalchemy editable install + its deps).
set -e
cd "$(dirname "$0")"
if [ ! -x .venv/bin/python ] || ! .venv/bin/python -c "import z3, jsonschema, sqlalchemy" 2>/dev/null; then
  rm -rf .venv
  /venv/bin/python -m venv .venv --without-pip
  PIP_NO_INDEX=1 /venv/bin/python -m pip --python .venv/bin/python install -q --no-index \
      --find-links /opt/veriftools/wheels z3-solver cvc5 jsonschema
  echo "import site; site.addsitedir('/venv/lib/python3.12/site-packages')" \
      > .venv/lib/python3.12/site-packages/_venv_link.pth
fi
.venv/bin/python -c "import z3, jsonschema, sqlalchemy; print('verif venv ok: z3', z3.get_version_string(), 'sqlalchemy', sqlalchemy.__version__)"
