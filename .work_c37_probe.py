import json, collections, re, sys
sys.path.insert(0, "/verif")
import checks.C37 as m
from rtc import ormharness as H
mem, db = m.scope_for("quick")
jl = []
for fam in m.FAMILIES:
    n = len(m.catalogue(fam)); jl += H.jobs(n, mem, family=fam); jl += H.jobs(n, db, family=fam, db=True)
agg = H.Agg()
for r in H.run_sharded(m._worker, jl): agg.add(r)
cls = collections.Counter(); first = {}
for d in agg["failures"]:
    gen = lambda s: re.sub(r"\d", "#", s)
    key = (d["family"], d["kind"], gen(d["last_op"]), tuple(gen(b) for b in d["broken"]))
    cls[key] += 1
    if key not in first or len(d["ops"]) < len(first[key]["ops"]): first[key] = d
for k, v in sorted(cls.items(), key=str):
    print(v, k, first[k]["ops"], first[k]["pre"])
