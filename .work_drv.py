import sys, json, time, collections, re
sys.path.insert(0, "/verif")
from vlib.report import Run
import importlib
pid, tier = sys.argv[1], (sys.argv[2] if len(sys.argv) > 2 else "quick")
m = importlib.import_module(f"checks.{pid}_bounded")
r = Run(pid + "_scratch", tier, 0, "exploration")
r.known = [k for k in __import__("vlib.report").report.load_known() if k["property"] == pid]
r.prop = pid
r.replay_dir = "/verif/replays/" + pid
t = time.time()
blk = m.bounded(r, tier, 0)
print("wall", round(time.time() - t, 1))
b = r.coverage["bounded"][-1]
print({k: v for k, v in b.items() if k not in ("samples", "rule", "scope")})
print("scope:", b["scope"][:600])
for s in b["samples"][:4]: print("sample:", json.dumps(s, default=repr)[:300])
for l in r.known_hits: print(l[:260])
for v in r.violations: print("VIOLATION", v[1])
print("crashes", r.crashes)
