import Mathlib.Data.List.Basic

/-! `chain_in S p` of pyvc/logic.py: every element of the list p is in the set S.
chain_in_intro: induction along the list -- first element in S, and membership carried from each element to the next. -/

theorem chain_in_intro {α : Type} (S : α → Prop) (p : List α)
    (h0 : ∀ h : 0 < p.length, S (p.get ⟨0, h⟩))
    (hstep : ∀ (i : Nat) (h : i + 1 < p.length), S (p.get ⟨i, by omega⟩) → S (p.get ⟨i + 1, h⟩)) :
    ∀ (i : Nat) (h : i < p.length), S (p.get ⟨i, h⟩) := by
  intro i
  induction i with
  | zero => intro h; exact h0 h
  | succ n ih => intro h; exact hstep n h (ih (by omega))
