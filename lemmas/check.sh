#!/bin/sh
# compile the Lean lemma files; prints one line per file; exit 0 iff all compile
cd "$(dirname "$0")"
rc=0
for f in Cycle.lean Filter.lean Flat.lean Remove.lean Chain.lean; do
  if LEAN_PATH=/opt/veriftools/mathlib4/.lake/build/lib:$(ls -d /opt/veriftools/mathlib4/.lake/packages/*/.lake/build/lib 2>/dev/null | tr '\n' ':') timeout 900 lean "$f" > /tmp/lean-$f.out 2>&1 && ! grep -q "error" /tmp/lean-$f.out; then echo "LEAN OK $f"; else echo "LEAN FAIL $f"; head -20 /tmp/lean-$f.out; rc=1; fi
done
exit $rc
