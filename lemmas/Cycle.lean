import Mathlib.Logic.Relation
import Mathlib.Data.Fintype.Card
import Mathlib.Data.Finset.Basic
import Mathlib.Logic.Function.Iterate
import Mathlib.Data.Fintype.EquivFin
import Mathlib.Data.Set.Finite.Basic
import Mathlib.Data.Fintype.Pigeonhole

open Relation

/-- chain along a predecessor function -/
theorem transGen_iterate {V : Type} (E : V → V → Prop) (f : V → V) (hf : ∀ x, E (f x) x)
    (k : ℕ) (hk : 0 < k) (y : V) : TransGen E (f^[k] y) y := by
  induction k generalizing y with
  | zero => exact absurd hk (Nat.lt_irrefl 0)
  | succ n ih =>
    rcases Nat.eq_zero_or_pos n with h0 | hpos
    · subst h0; simpa using TransGen.single (hf y)
    · -- f^[n+1] y = f^[n] (f y)
      have h1 : TransGen E (f^[n] (f y)) (f y) := ih hpos (f y)
      have : f^[n+1] y = f^[n] (f y) := Function.iterate_succ_apply f n y
      rw [this]
      exact TransGen.tail h1 (hf y)

theorem pred_closed_has_cycle {V : Type} (E : V → V → Prop) (S : Finset V) (hne : S.Nonempty)
    (h : ∀ x ∈ S, ∃ p ∈ S, E p x) : ∃ x ∈ S, TransGen E x x := by
  classical
  -- predecessor function on the subtype
  have hch : ∀ x : {x // x ∈ S}, ∃ p : {x // x ∈ S}, E p.1 x.1 := by
    intro x; obtain ⟨p, hp, hE⟩ := h x.1 x.2; exact ⟨⟨p, hp⟩, hE⟩
  choose f hf using hch
  obtain ⟨x0, hx0⟩ := hne
  let g : ℕ → {x // x ∈ S} := fun n => f^[n] ⟨x0, hx0⟩
  obtain ⟨m, n, hmn, hg⟩ := Finite.exists_ne_map_eq_of_infinite g
  -- wlog m < n
  rcases Nat.lt_or_gt_of_ne hmn with hlt | hlt
  · refine ⟨(g m).1, (g m).2, ?_⟩
    have hk : 0 < n - m := Nat.sub_pos_of_lt hlt
    have hiter : f^[n - m] (g m) = g n := by
      simp only [g]; rw [← Function.iterate_add_apply]; congr 1; omega
    have := transGen_iterate (fun a b : {x // x ∈ S} => E a.1 b.1) f hf (n - m) hk (g m)
    rw [hiter, ← hg] at this
    -- lift TransGen on subtype to TransGen on V
    exact TransGen.lift (fun a : {x // x ∈ S} => a.1) (fun a b hab => hab) _ _ this
  · refine ⟨(g n).1, (g n).2, ?_⟩
    have hk : 0 < m - n := Nat.sub_pos_of_lt hlt
    have hiter : f^[m - n] (g n) = g m := by
      simp only [g]; rw [← Function.iterate_add_apply]; congr 1; omega
    have := transGen_iterate (fun a b : {x // x ∈ S} => E a.1 b.1) f hf (m - n) hk (g n)
    rw [hiter, hg] at this
    exact TransGen.lift (fun a : {x // x ∈ S} => a.1) (fun a b hab => hab) _ _ this
