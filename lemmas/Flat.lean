import Mathlib.Data.List.Basic
import Mathlib.Data.List.Nodup
import Mathlib.Data.List.Pairwise
import Mathlib.Data.List.Lattice

/-! `flat` of pyvc/logic.py is `List.flatten` (join).  Facts used as SMT axioms: flat_nil, flat_snoc, flat_mem, flat_nodup, flat_order. -/
open List

variable {α : Type} [DecidableEq α]
set_option linter.unusedSectionVars false

theorem flat_nil : ([] : List (List α)).flatten = [] := rfl

theorem flat_snoc (S : List (List α)) (x : List α) : (S ++ [x]).flatten = S.flatten ++ x := by simp

theorem flat_mem (S : List (List α)) (y : α) : y ∈ S.flatten ↔ ∃ l ∈ S, y ∈ l := List.mem_flatten

/-- flat_nodup: sublists duplicate-free and pairwise disjoint ⇒ the flattening is duplicate-free -/
theorem flat_nodup (S : List (List α)) (h1 : ∀ l ∈ S, l.Nodup) (h2 : S.Pairwise List.Disjoint) : S.flatten.Nodup :=
  List.nodup_flatten.mpr ⟨h1, h2⟩

/-- flat_order: in a duplicate-free flattening, a member of an earlier sublist comes before a member of a later one -/
theorem flat_order (A B : List (List α)) (l1 l2 : List α) (x y : α) (hx : x ∈ l1) (hy : y ∈ l2)
    (hn : (A ++ [l1] ++ B ++ [l2]).flatten.Nodup) :
    (A ++ [l1] ++ B ++ [l2]).flatten.idxOf x < (A ++ [l1] ++ B ++ [l2]).flatten.idxOf y := by
  have hflat : (A ++ [l1] ++ B ++ [l2]).flatten = (A.flatten ++ l1 ++ B.flatten) ++ l2 := by simp
  rw [hflat] at hn ⊢
  have hxin : x ∈ A.flatten ++ l1 ++ B.flatten := by simp [hx]
  have hynot : y ∉ A.flatten ++ l1 ++ B.flatten := by
    intro hc
    exact (List.nodup_append.mp hn).2.2 y hc y hy rfl
  rw [List.idxOf_append_of_mem hxin, List.idxOf_append_of_notMem hynot]
  have := List.idxOf_lt_length_iff.mpr hxin
  omega
