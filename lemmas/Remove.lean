import Mathlib.Data.List.Basic
import Mathlib.Data.List.Nodup

/-! `srem s x` of pyvc/logic.py is `List.erase s x` (remove the first occurrence).  Facts used as SMT axioms:
srem_def, srem_mem_ne, srem_mem_self, srem_len, srem_nodup. -/
open List

variable {α : Type} [DecidableEq α]
set_option linter.unusedSectionVars false

/-- srem_def: erase = the part before the first occurrence ++ the part after it -/
theorem srem_def (s : List α) (x : α) (h : x ∈ s) : s.erase x = s.take (s.idxOf x) ++ s.drop (s.idxOf x + 1) := by
  induction s with
  | nil => simp at h
  | cons a t ih =>
    by_cases hax : a = x
    · subst hax; simp
    · have hx : x ∈ t := by
        rcases List.mem_cons.mp h with h1 | h1
        · exact absurd h1.symm hax
        · exact h1
      have hne : (a == x) = false := by simp [hax]
      rw [List.erase_cons_tail (by simp [hax]), List.idxOf_cons_ne _ hax]
      simp [ih hx]

theorem srem_mem_ne (s : List α) (x y : α) (h : y ≠ x) : y ∈ s.erase x ↔ y ∈ s := List.mem_erase_of_ne h

theorem srem_mem_self (s : List α) (x : α) (h : s.Nodup) : x ∉ s.erase x := fun hc => (List.Nodup.mem_erase_iff h).mp hc |>.1 rfl

theorem srem_len (s : List α) (x : α) (h : x ∈ s) : (s.erase x).length = s.length - 1 := List.length_erase_of_mem h

theorem srem_nodup (s : List α) (x : α) (h : s.Nodup) : (s.erase x).Nodup := h.erase x
