import Mathlib.Data.List.Basic
import Mathlib.Data.List.Perm.Basic
import Mathlib.Data.List.Nodup
import Mathlib.Data.List.Induction

set_option linter.unusedSectionVars false

/-! Inductive facts about finite sequences that pyvc/logic.py uses as axioms (SMT does no induction).
    `filt P s` is `List.filter`, `app s x` is `s ++ [x]`, `cat` is `++`,
    `addall s t` = s followed by the first occurrences of the members of t not already present. -/

open List

variable {α : Type} [DecidableEq α]

/-- filt_cong: predicates that agree on the members of `s` give the same filter -/
theorem filt_cong (p q : α → Bool) (s : List α) (h : ∀ x ∈ s, p x = q x) : s.filter p = s.filter q :=
  List.filter_congr h

/-- filt_snoc -/
theorem filt_snoc (p : α → Bool) (s : List α) (x : α) :
    (s ++ [x]).filter p = if p x then s.filter p ++ [x] else s.filter p := by
  by_cases h : p x <;> simp [List.filter_append, h]

/-- cat_snoc -/
theorem cat_snoc (s t : List α) (x : α) : s ++ (t ++ [x]) = (s ++ t) ++ [x] := by simp

/-- filter_length_lt: a filter that drops a member is strictly shorter (termination of sort_as_subsets) -/
theorem filter_length_lt (p : α → Bool) (l : List α) (x : α) (hx : x ∈ l) (hp : p x = false) :
    (l.filter p).length < l.length :=
  List.length_filter_lt_length_iff_exists.mpr ⟨x, hx, by simp [hp]⟩

/-- perm_of_filter_partition -/
theorem perm_of_filter_partition (p : α → Bool) (l : List α) :
    (l.filter p ++ l.filter (fun x => !p x)).Perm l :=
  List.filter_append_perm p l

/-- addall as a left fold with "append if absent" (the snoc-recursive definition of pyvc/logic.py) -/
def addall (s t : List α) : List α := t.foldl (fun acc x => if x ∈ acc then acc else acc ++ [x]) s

theorem addall_nil (s : List α) : addall s [] = s := rfl

theorem addall_snoc (s t : List α) (x : α) :
    addall s (t ++ [x]) = if x ∈ addall s t then addall s t else addall s t ++ [x] := by
  unfold addall
  rw [List.foldl_append]
  rfl

theorem addall_mem (s t : List α) (y : α) : y ∈ addall s t ↔ y ∈ s ∨ y ∈ t := by
  induction t using List.reverseRecOn with
  | nil => simp [addall]
  | append_singleton t x ih =>
    rw [addall_snoc]
    by_cases h : x ∈ addall s t
    · simp only [h, if_true, ih, List.mem_append, List.mem_singleton]
      constructor
      · rintro (h1 | h1); exact Or.inl h1; exact Or.inr (Or.inl h1)
      · rintro (h1 | h1 | h1); exact Or.inl h1; exact Or.inr h1; subst h1; exact ih.mp h
    · simp only [h, if_false, List.mem_append, List.mem_singleton, ih]
      tauto

theorem addall_nodup (s t : List α) (hs : s.Nodup) : (addall s t).Nodup := by
  induction t using List.reverseRecOn with
  | nil => simpa [addall] using hs
  | append_singleton t x ih =>
    rw [addall_snoc]
    by_cases h : x ∈ addall s t
    · simpa [h] using ih
    · simp only [h, if_false]
      exact List.Nodup.append ih (List.nodup_singleton x) (by
        intro a ha hb; simp at hb; subst hb; exact h ha)

/-- addall_cat: appending a duplicate-free sequence that shares no member with `s` is plain concatenation -/
theorem addall_cat (s t : List α) (ht : t.Nodup) (hd : ∀ x ∈ t, x ∉ s) : addall s t = s ++ t := by
  induction t using List.reverseRecOn with
  | nil => simp [addall]
  | append_singleton t x ih =>
    have htn : t.Nodup := (List.nodup_append.mp ht).1
    have hxt : x ∉ t := by
      intro hx
      have := (List.nodup_append.mp ht).2.2
      exact (this x hx x (by simp)) rfl
    have ih' := ih htn (fun y hy => hd y (by simp [hy]))
    rw [addall_snoc, ih']
    have : x ∉ s ++ t := by
      simp only [List.mem_append, not_or]
      exact ⟨hd x (by simp), hxt⟩
    simp [this]

/-- smap_nil / smap_snoc: `smap M s` is `List.map M s` -/
theorem smap_nil {β : Type} (f : α → β) : ([] : List α).map f = [] := rfl
theorem smap_snoc {β : Type} (f : α → β) (s : List α) (x : α) : (s ++ [x]).map f = s.map f ++ [f x] := by simp
