"""Bounded stand-ins: the same contracts evaluated concretely on the real functions over an exhaustive small scope.
Never counted as proved (DESIGN §2.4): results go to coverage['bounded'] only."""
import json
from pyvc.contract import FUNCS


def run_bounded(run, keys, tier):
    from rtc import harness as H
    blocks = run.coverage.setdefault("bounded", [])
    for key in keys:
        c = FUNCS[key]
        if not c.harness:
            continue
        try:
            h = H.get(c.harness)
            n, sk, fails = H.search(c, tier, stop_at=50)
        except Exception as e:
            run.crashes.append(f"bounded harness {c.harness}: {type(e).__name__}: {e}")
            continue
        blk = dict(function=key, harness=c.harness, scope=h.scope, evaluations=n, skipped_by_precondition=sk,
                   contract_failures=len(fails), label="bounded (not proof)", exhaustive=True)
        blocks.append(blk)
        if n - sk == 0:
            run.crashes.append(f"bounded harness {c.harness}: no input satisfied the precondition (vacuity guard)")
        for desc, o in fails:
            dj = json.dumps(desc, sort_keys=True, default=repr)
            k = run.match_known(function=key, input=dj)
            if k is not None:
                run.known_finding(k, "bounded replay on the real function")
                continue
            run.violation(f"{c.qualname}-bounded-{abs(hash(dj)) % 10**8}",
                          dict(function=key, harness=c.harness, input=desc, reason="bounded run-time contract check",
                               failed_clauses=[dict(kind=f[0], index=f[1], clause=f[2], detail=f[3]) for f in o.failures]))
            break
