"""Proof runner: verify the contracts of one property, classify every undischarged obligation.

Decision protocol (DESIGN §3):
  unsat                          -> discharged
  not unsat, matches a known finding and is unsat once the finding's input class is excluded -> KNOWN-FINDING
  not unsat otherwise            -> search the contract's bounded harness for a concrete failing input on the real
                                    code; found -> VIOLATION with replay; not found -> VIOLATION ... no-failing-input-found
                                    (if the function's source is byte-identical to the recorded baseline and the solver
                                    only answered `unknown`, this is a solver flake: UNDECIDED, exit 2)
  out of subset / contract does not fit -> bounded harness; failing input -> VIOLATION, else exit 3
"""
import json
import os
import re
from pyvc.contract import FUNCS
from pyvc import verify as V
from .report import ROOT

BASELINE_DIR = os.path.join(ROOT, "baseline")


def kindsig(name):
    """obligation name without line number / ordinal:  'fn/return.ensures[0]'"""
    return re.sub(r"@L-?\d+(#\d+)?$", "", re.sub(r"#\d+$", "", name))


def load_baseline(prop):
    p = os.path.join(BASELINE_DIR, f"{prop}.json")
    return json.load(open(p)) if os.path.exists(p) else None


def save_baseline(prop, reports):
    os.makedirs(BASELINE_DIR, exist_ok=True)
    # entries of functions not verified in this run (thorough-tier-only functions during a quick update) are kept
    data = {k: v for k, v in (load_baseline(prop) or {}).items() if k in FUNCS and k not in {r.key for r in reports}}
    for r in reports:
        kinds = {}
        for o in r.obligations:
            kinds.setdefault(kindsig(o["name"]), []).append(o["result"])
        data[r.key] = dict(sha=r.sha, obligations=len(r.obligations) + len(r.infeasible), discharged=len(r.discharged), kinds={k: sorted(set(v)) for k, v in kinds.items()})
    json.dump(data, open(os.path.join(BASELINE_DIR, f"{prop}.json"), "w"), indent=1, sort_keys=True)


def exclusion_requires(entries):
    return [f"not ({e['exclude']})" for e in entries if e.get("exclude")]


def run_proofs(run, keys, tier="quick", update_baseline=False, source_root=None):
    """verify every contract in keys; fill run.coverage; returns list of FnReport"""
    baseline = load_baseline(run.prop) or {}
    reports = []
    per_fn = []
    total_ms = 0
    samples = []
    backends = {}
    assumptions = set()
    skipped = [k for k in keys if FUNCS[k].tier == "thorough" and tier != "thorough"]
    keys = [k for k in keys if k not in skipped]
    all_reports = V.verify_many(keys, source_root=source_root, keep_smt=True)
    for key, rep in zip(keys, all_reports):
        reports.append(rep)
        c = FUNCS[key]
        base = baseline.get(key)
        changed = base is not None and rep.sha is not None and base["sha"] != rep.sha
        entry = dict(function=key, sha256_16=rep.sha, source_changed_since_baseline=changed, paths=rep.paths,
                     obligations=len(rep.obligations), discharged=len(rep.discharged),
                     infeasible_paths_obligations=len(rep.infeasible), wall_s=round(rep.wall, 2))
        per_fn.append(entry)
        assumptions |= rep.assumptions
        if rep.error:
            kind, msg = rep.error
            entry["error"] = f"{kind}: {msg}"
            found = bounded_search(run, c, tier, reason=f"{kind}: {msg}")
            if not found:
                run.crashes.append(f"{key}: {kind}: {msg} (bounded harness found no failing input)")
            continue
        for o in rep.obligations:
            total_ms += o["ms"]
            backends[o["backend"]] = backends.get(o["backend"], 0) + 1
        if rep.discharged and len(samples) < 3:
            o = rep.discharged[len(rep.discharged) // 2]
            samples.append(dict(obligation=o["name"], path=o["path"], backend=o["backend"], ms=o["ms"], smt2_head=(o.get("smt") or "")[-1500:]))
        # vacuity: an unchanged function must generate at least the baseline's obligations
        # (obligations on paths whose path condition the solver proved unsatisfiable are listed apart; whether a dead path --
        # e.g. the continuation after a NoReturn callee -- is recognised depends on solver timing, so the guard counts both)
        if base is not None and not changed and not update_baseline and len(rep.obligations) + len(rep.infeasible) < base["obligations"]:
            run.crashes.append(f"{key}: {len(rep.obligations) + len(rep.infeasible)} obligations generated, baseline has {base['obligations']} (vacuity guard)")
        if not rep.obligations:
            run.crashes.append(f"{key}: zero obligations generated (vacuity guard)")
        bad = [o for o in rep.obligations if o["result"] != "unsat"]
        if not bad:
            continue
        # --- known findings
        remaining = list(bad)
        matched = []
        for o in bad:
            k = run.match_known(function=key, obligation=kindsig(o["name"]))
            if k is not None:
                matched.append((o, k))
        if matched:
            entries = []
            for _, k in matched:
                if k not in entries:
                    entries.append(k)
            rep2 = V.verify(key, source_root=source_root, extra_requires=exclusion_requires(entries))
            bad2 = {kindsig(o["name"]) for o in rep2.obligations if o["result"] != "unsat"}
            if rep2.error is None:
                for o, k in matched:
                    if kindsig(o["name"]) not in bad2:
                        remaining.remove(o)
                        run.known_finding(k, f"{kindsig(o['name'])}: only inputs in the listed class fail (obligation discharged with the class excluded)")
                entry["known_finding_obligations"] = len(bad) - len(remaining)
                # the obligation restricted to inputs outside the listed finding class *is* discharged (second run)
                entry["discharged"] += len(bad) - len(remaining)
                entry["discharged_only_outside_known_finding_class"] = len(bad) - len(remaining)
        if not remaining:
            continue
        # --- genuine: look for a concrete failing input on the real code
        only_unknown = all(o["result"] == "unknown" for o in remaining)
        names = [o["name"] for o in remaining]
        payload = dict(function=key, failed_obligations=[dict(name=o["name"], result=o["result"], backend=o["backend"], path=o["path"],
                                                              solver_model=o.get("model"), solver_reason=o.get("why")) for o in remaining])
        found = bounded_search(run, c, tier, reason="obligation(s) not discharged: " + ", ".join(names[:4]), payload=payload,
                               skip_known=True)
        if found:
            continue
        if only_unknown and base is not None and not changed and not source_root:
            run.undecided.append(f"{key}: solver answered unknown on {names[:3]} although the source is identical to the baseline")
            continue
        payload["note"] = ("the verifier refuted or could not discharge these obligations and the bounded harness found no concrete failing "
                           "input on the real code; the obligations held on the baseline tree")
        run.violation(f"{c.qualname}-{kindsig(names[0]).split('/')[-1]}", payload, no_input=True)
    cov = run.coverage
    cov["obligations"] = sum(e["obligations"] for e in per_fn)
    cov["discharged"] = sum(e["discharged"] for e in per_fn)
    cov["functions_under_contract"] = per_fn
    if skipped:
        cov["functions_verified_in_thorough_tier_only"] = skipped
    cov["solver_ms_total"] = total_ms
    cov["backends"] = backends
    cov["checker_cmd"] = f"./vcheck {run.prop} --tier {tier}"
    cov["samples"] = samples
    cov["trusted_base"] = ["pyvc encoding of Python semantics (DESIGN §2.2 value model)", "z3 4.8/5.1 and cvc5 1.0.3",
                           "axioms of pyvc/logic.py (PySeq, filt, addall, boxing) — exercised by pyvc/axiomtest.py",
                           "builtin list/set/dict/deque method contracts (pyvc/engine.py bm_*)",
                           "contract text (contracts/*.py), taken from the property statement"]
    run.assumptions += sorted(assumptions)
    if update_baseline:
        save_baseline(run.prop, [r for r in reports if not r.error])
    return reports


def bounded_search(run, c, tier, reason, payload=None, skip_known=False):
    """search the contract's harness for a failing input; report it as a violation.  True if something was reported
    (violation or known finding)."""
    if not c.harness:
        return False
    from rtc import harness as H
    try:
        n, sk, fails = H.search(c, tier, stop_at=25)
    except Exception as e:        # harness crash is not a violation
        run.crashes.append(f"{c.key}: bounded harness crashed: {type(e).__name__}: {e}")
        return True
    reported = False
    for desc, o in fails:
        k = run.match_known(function=c.key, input=json.dumps(desc, sort_keys=True, default=repr))
        if k is not None:
            run.known_finding(k, "native replay of a listed input still fails")
            reported = True
            continue
        p = dict(payload or {}, function=c.key, reason=reason, harness=c.harness, input=desc,
                 failed_clauses=[dict(kind=f[0], index=f[1], clause=f[2], detail=f[3]) for f in o.failures],
                 replay_cmd=f"./vcheck {run.prop} --replay <this file>")
        run.violation(f"{c.qualname}-{abs(hash(json.dumps(desc, sort_keys=True, default=repr))) % 10**8}", p)
        reported = True
        break
    return reported


def check_lemmas(run, tier):
    """thorough tier: re-check the Lean lemma library; quick tier: record that it was not re-checked this run"""
    import subprocess
    entry = dict(files=["lemmas/Cycle.lean", "lemmas/Filter.lean", "lemmas/Flat.lean", "lemmas/Remove.lean", "lemmas/Chain.lean"], rechecked_this_run=False)
    if tier == "thorough":
        try:
            p = subprocess.run([os.path.join(ROOT, "lemmas", "check.sh")], capture_output=True, text=True, timeout=1800)
            entry.update(rechecked_this_run=True, ok=(p.returncode == 0), output=p.stdout[-600:])
            if p.returncode != 0:
                run.assumptions.append("UNCHECKED: a Lean lemma file did not compile in this run; the inductive axioms of pyvc/logic.py are then assumptions")
        except Exception as e:
            entry.update(rechecked_this_run=True, ok=False, output=str(e))
    else:
        run.assumptions.append("Lean lemma library (lemmas/*.lean) is re-checked in the thorough tier only; last committed state compiles")
    run.coverage["lemmas_lean"] = entry
