"""./vcheck <ID> [--tier quick|thorough] [--replay <file>] [--update-baseline]"""
import argparse
import importlib
import json
import os
import sys
import traceback

ROOT = os.path.dirname(os.path.dirname(os.path.abspath(__file__)))
sys.path.insert(0, ROOT)

from vlib.report import Run, EXIT_CRASH, EXIT_OK, EXIT_VIOLATION  # noqa: E402


def do_replay(prop, path):
    data = json.load(open(path))
    fn_key = data.get("function")
    import re
    bm = data.get("bounded_module")
    if not bm:
        m = re.search(r"\((C\d\d_bounded)\)", str(data.get("reason", "")))
        if m:
            bm = "checks." + m.group(1)
    if bm:
        return importlib.import_module(bm).replay(data)
    mod = importlib.import_module(f"checks.{prop}")
    if hasattr(mod, "replay"):
        return mod.replay(data)
    if "input" not in data or "harness" not in data:
        print(f"replay file carries no concrete input (obligation-only report): {data.get('failed_obligations', '')!r:.600}")
        return EXIT_VIOLATION
    from pyvc.contract import FUNCS
    from rtc import harness as H
    c = FUNCS[fn_key]
    o = H.replay(c, data["input"])
    if o.failures:
        for f in o.failures:
            print(f"REPLAY-FAILS {fn_key} input={data['input']!r} clause={f[0]}[{f[1]}] {f[2]!r:.200} {f[3]}")
        return EXIT_VIOLATION
    print(f"REPLAY-PASSES {fn_key} input={data['input']!r}")
    return EXIT_OK


def main(argv=None):
    ap = argparse.ArgumentParser()
    ap.add_argument("prop")
    ap.add_argument("--tier", default=os.environ.get("VERIF_TIER", "quick"), choices=["quick", "thorough"])
    ap.add_argument("--replay")
    ap.add_argument("--update-baseline", action="store_true")
    ap.add_argument("--source-root", help="verify sources under this root instead of /repo/lib/sqlalchemy (selftest mutants)")
    a = ap.parse_args(argv)
    os.environ["VERIF_TIER"] = a.tier
    seed = int(os.environ.get("VERIF_SEED", "0") or 0)
    try:
        mod = importlib.import_module(f"checks.{a.prop}")
    except ModuleNotFoundError:
        print(f"no check for {a.prop}", file=sys.stderr)
        return EXIT_CRASH
    if a.replay:
        return do_replay(a.prop, a.replay)
    run = Run(a.prop, a.tier, seed, mod.LEVEL)
    run.scratch = bool(a.source_root)
    try:
        mod.run(run, a.tier, seed, a)
    except Exception as e:
        traceback.print_exc()
        run.crashes.append(f"{type(e).__name__}: {e}")
    return run.finish()


if __name__ == "__main__":
    sys.exit(main())
