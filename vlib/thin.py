"""A check that (so far) consists only of its bounded run-time contract module checks/<ID>_bounded.py."""
import importlib


def run_bounded_only(run, prop, tier, seed):
    m = importlib.import_module(f"checks.{prop}_bounded")
    m.bounded(run, tier, seed)
    blocks = run.coverage.get("bounded", [])
    if not blocks:
        run.crashes.append("bounded module produced no coverage block")
        return
    b = blocks[-1]
    cov = run.coverage
    cov["evaluations"] = int(sum(x.get("evaluations", 0) for x in blocks))
    cov["distinct_nontrivial"] = int(sum(x.get("distinct_nontrivial", 0) for x in blocks))
    cov["rule"] = b.get("rule", "")
    cov["samples"] = b.get("samples", [])[:5] or [b.get("scope", "")]
    cov["exhaustive"] = bool(b.get("exhaustive", False))
    cov["scope"] = b.get("scope", "")
