"""proof kernel + an existing full exploration module (checks/<ID>_explore.py) as its bounded complement"""
from pyvc.contract import FUNCS
from vlib.proof import run_proofs


def run_proof_and_explore(run, prop, explore_mod, tier, seed, args, assumptions):
    keys = [k for k, c in FUNCS.items() if prop in c.props and c.proof and not c.abstract]
    run_proofs(run, keys, tier, update_baseline=args.update_baseline, source_root=args.source_root)
    proof_cov = {k: run.coverage[k] for k in ("obligations", "discharged", "functions_under_contract", "samples", "checker_cmd", "trusted_base", "backends", "solver_ms_total")}
    if not args.source_root:
        explore_mod.run(run, tier, seed, args)
        expl = {k: run.coverage.get(k) for k in ("evaluations", "distinct_nontrivial", "rule", "scope", "exhaustive")}
        run.coverage.setdefault("bounded", []).append(dict(expl, label="bounded (not proof)", function=f"exploration module checks/{prop}_explore.py"))
        run.coverage["samples_exploration"] = run.coverage.get("samples")
    run.coverage.update(proof_cov)
    run.assumptions += assumptions
