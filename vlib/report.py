"""Evidence, violations, known findings, exit codes (DESIGN §3, §4)."""
import json
import os
import re
import sys
import time

ROOT = os.path.dirname(os.path.dirname(os.path.abspath(__file__)))
KNOWN = os.path.join(ROOT, "known_findings.json")

EXIT_OK, EXIT_VIOLATION, EXIT_UNDECIDED, EXIT_CRASH = 0, 1, 2, 3


def load_known():
    out = []
    if os.path.exists(KNOWN):
        out += json.load(open(KNOWN))["findings"]
    d = os.path.join(ROOT, "known_findings.d")
    if os.path.isdir(d):
        for fn in sorted(os.listdir(d)):
            if fn.endswith(".json"):
                out += json.load(open(os.path.join(d, fn)))["findings"]
    return out


class Run:
    """accumulates what one check run covered and decides the exit code"""

    def __init__(self, prop, tier, seed, level):
        self.prop, self.tier, self.seed, self.level = prop, tier, seed, level
        self.t0 = time.time()
        self.violations = []        # (what, replay_path, suffix)
        self.known_hits = []        # strings
        self.undecided = []
        self.crashes = []
        self.coverage = {}
        self.assumptions = []
        self.known = [k for k in load_known() if k["property"] == prop]
        self.replay_dir = os.path.join(ROOT, "replays", prop)

    # ---- reporting
    def write_replay(self, name, payload):
        os.makedirs(self.replay_dir, exist_ok=True)
        safe = re.sub(r"[^A-Za-z0-9_.\-]", "_", name)[:120]
        path = os.path.join(self.replay_dir, safe + ".json")
        payload = dict(payload, property=self.prop)
        with open(path, "w") as f:
            json.dump(payload, f, indent=1, default=repr)
        return os.path.relpath(path, ROOT)

    def violation(self, name, payload, no_input=False):
        path = self.write_replay(name, payload)
        self.violations.append((name, path, " no-failing-input-found" if no_input else ""))

    def known_finding(self, entry, detail=""):
        line = f"KNOWN-FINDING: property={self.prop} {entry['what']}" + (f" [{detail}]" if detail else "")
        if line not in self.known_hits:
            self.known_hits.append(line)

    def match_known(self, **facts):
        """first `finding` entry whose `match` dict is satisfied by facts (regex on string values)"""
        for k in self.known:
            if k.get("status") != "finding":
                continue
            m = k.get("match", {})
            ok = True
            for key, pat in m.items():
                v = facts.get(key)
                if v is None or not re.search(pat, str(v)):
                    ok = False
                    break
            if ok and m and k.get("input_pred"):
                # optional predicate over the failing input descriptor (a Python expression over `desc`)
                try:
                    desc = json.loads(facts.get("input", "null"))
                    ok = bool(eval(k["input_pred"], {"desc": desc}))
                except Exception:
                    ok = False
            if ok and m:
                return k
        return None

    def finish(self):
        wall = time.time() - self.t0
        cov = dict(self.coverage)
        ev = dict(property_id=self.prop, tier=self.tier, seed=self.seed, level=self.level, coverage=cov,
                  assumptions=self.assumptions, wall_s=round(wall, 2), violations=len(self.violations),
                  known_findings=self.known_hits, undecided=self.undecided, crashes=self.crashes)
        # evidence/<ID>.json describes /repo itself; a run against a scratch tree (VERIF_REPO / --source-root) writes elsewhere
        scratch = bool(os.environ.get("VERIF_REPO")) or getattr(self, "scratch", False)
        evdir = os.path.join(ROOT, "replays", "scratch-evidence") if scratch else os.path.join(ROOT, "evidence")
        os.makedirs(evdir, exist_ok=True)
        with open(os.path.join(evdir, f"{self.prop}.json"), "w") as f:
            json.dump(ev, f, indent=1, default=repr)
        for line in self.known_hits:
            print(line)
        for name, path, suffix in self.violations:
            print(f"VIOLATION property={self.prop} replay={path}{suffix}")
        if self.violations:
            return EXIT_VIOLATION
        if self.crashes:
            for c in self.crashes:
                print(f"CHECKER-ERROR property={self.prop} {c}", file=sys.stderr)
            return EXIT_CRASH
        if self.undecided:
            for u in self.undecided:
                print(f"UNDECIDED property={self.prop} {u}", file=sys.stderr)
            return EXIT_UNDECIDED
        print(f"OK property={self.prop} tier={self.tier} level={self.level} wall={wall:.1f}s")
        return EXIT_OK
